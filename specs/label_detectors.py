"""Executable specifications of DDM, EDDM and STEPD (property C05).

Written from the statement of the property and the class docstrings, as small
state machines over the error sequence; they run on floats and on symx proxies
alike.  A spec never reads the implementation's state.

``step(err)`` consumes one outcome (err: 1 = wrong prediction, 0 = correct) and
returns ``(drift_cond, warn_cond)``: the detector must report drift iff
drift_cond, warning iff (not drift_cond and warn_cond), otherwise stay/turn as
``quiet`` says.  ``commit(state)`` then tells the spec which state was reported
(the harness has just proved it equal to the spec's verdict), so that the spec
restarts its epoch after a drift.
"""
import numpy as np

from symx.logic import ite, land, lnot, lor


class RecsFirstWarning:
    """[index of the first warning of the epoch, index of the drift];
    both the drift index when no warning preceded it."""

    def __init__(self):
        self.first = None
        self.recs = [None, None]

    def restart(self):
        self.first = None
        self.recs = [None, None]

    def observe(self, state, index):
        if state == "warning" and self.first is None:
            self.first = index
        if state == "drift":
            self.recs = [self.first if self.first is not None else index, index]
        else:
            self.recs = [self.first, None]


class DDMSpec:
    def __init__(self, n_threshold, warning_scale, drift_scale):
        self.nth, self.ws, self.ds = n_threshold, warning_scale, drift_scale
        self.recs = RecsFirstWarning()
        self.total = 0
        self.restart()
        self.state = None

    def restart(self):
        self.n = 0
        self.p = 0
        self.s = 0
        self.p_min = float("inf")
        self.s_min = float("inf")
        self.recs.restart()

    def step(self, err):
        if self.state == "drift":
            self.restart()
            self.state = None
        self.n += 1
        self.total += 1
        p_prev = self.p
        self.p = self.p + (err - self.p) / self.n  # running error rate
        self.s = np.sqrt((self.s + (err - self.p) * (err - p_prev)) / self.n)  # running deviation
        if self.n < self.nth:
            self.quiet = True  # no test before n_threshold samples: the state is left as it is
            return False, False
        self.quiet = False
        level = self.p + self.s
        better = level <= self.p_min + self.s_min
        self.p_min = ite(better, self.p, self.p_min)
        self.s_min = ite(better, self.s, self.s_min)
        return level >= self.p_min + self.ds * self.s, level >= self.p_min + self.ws * self.s

    def commit(self, state):
        self.state = state
        if not self.quiet:
            self.recs.observe(state, self.total - 1)


class EDDMSpec:
    def __init__(self, n_threshold, warning_thresh, drift_thresh):
        self.nth, self.wt, self.dt = n_threshold, warning_thresh, drift_thresh
        self.recs = RecsFirstWarning()
        self.total = 0
        self.restart()
        self.state = None

    def restart(self):
        self.n = 0
        self.n_err = 0
        self.last_err = 0  # position (0-based, within the epoch) of the previous error
        self.mean = 0
        self.dev = 0
        self.max_level = 0
        self.recs.restart()

    def step(self, err):
        if self.state == "drift":
            self.restart()
            self.state = None
        self.n += 1
        self.total += 1
        self.quiet = True
        if not err:
            return False, False  # correct prediction: nothing is tested, the state is left as it is
        self.n_err += 1
        pos = self.n - 1
        dist = pos - self.last_err
        self.last_err = pos
        m_prev = self.mean
        self.mean = self.mean + (dist - self.mean) / self.n_err
        self.dev = np.sqrt((self.dev + (dist - self.mean) * (dist - m_prev)) / self.n_err)
        if self.n_err < self.nth:
            return False, False
        self.quiet = False
        level = self.mean + 2 * self.dev
        self.max_level = ite(self.max_level < level, level, self.max_level)
        ratio = level / self.max_level
        return ratio <= self.dt, ratio <= self.wt

    def commit(self, state):
        self.state = state
        if not self.quiet:
            self.recs.observe(state, self.total - 1)


class STEPDSpec:
    def __init__(self, window_size, alpha_warning, alpha_drift, cdf):
        self.w, self.aw, self.ad, self.cdf = window_size, alpha_warning, alpha_drift, cdf
        self.total = 0
        self.restart()
        self.state = None

    def restart(self):
        self.n = 0
        self.recent = []  # outcomes (1 = correct) of the most recent window
        self.older_correct = 0
        self.run_start = None
        self.recs = [None, None]

    def accuracies(self):
        n_recent = len(self.recent)
        n_old = self.n - n_recent
        recent = sum(self.recent) / n_recent if n_recent else 0
        past = self.older_correct / n_old if n_old else 0
        overall = (self.older_correct + sum(self.recent)) / self.n if self.n else 0
        return recent, past, overall

    def step(self, err):
        if self.state == "drift":
            self.restart()
            self.state = None
        self.n += 1
        self.total += 1
        self.recent.append(1 - err)
        if len(self.recent) > self.w:
            self.older_correct += self.recent.pop(0)
        if self.n < 2 * self.w:
            self.quiet = True
            return False, False
        self.quiet = False
        recent, past, overall = self.accuracies()
        n_old = self.n - self.w
        corr = 0.5 * (1 / n_old + 1 / self.w)  # continuity correction
        stat = (np.absolute(past - recent) - corr) / np.sqrt(overall * (1 - overall) * (1 / n_old + 1 / self.w))
        p = 1 - self.cdf(stat)
        self.p_value = p
        worse = past > recent
        return land(worse, p < self.ad), land(worse, p < self.aw)

    def commit(self, state):
        self.state = state
        if self.quiet:
            return
        idx = self.total - 1
        if state is None:
            self.run_start = None
            self.recs = [None, None]
        else:
            if self.run_start is None:
                self.run_start = idx
            self.recs = [self.run_start, idx]
