"""Executable specifications of the CUSUM and Page-Hinkley detectors (C04),
written from the statement of the property and the class docstrings.  They run
on floats and on symx proxies."""
import numpy as np

from symx.core import sym_max, sym_min
from symx.logic import ite, land, lnot, lor


def mean_of(xs):
    t = 0
    for x in xs:
        t = t + x
    return t / len(xs)


def pop_std_of(xs):
    m = mean_of(xs)
    t = 0
    for x in xs:
        t = t + (x - m) * (x - m)
    return np.sqrt(t / len(xs))


class PageHinkleySpec:
    def __init__(self, delta, threshold, burn_in, direction):
        self.delta, self.threshold, self.burn_in, self.direction = delta, threshold, burn_in, direction
        self.restart()
        self.alarmed = False

    def restart(self):
        self.n = 0
        self.mean = 0
        self.sum = 0
        self.min = 0
        self.max = 0

    def step(self, x):
        """returns the alarm condition of this step"""
        if self.alarmed:
            self.restart()
        self.n = self.n + 1
        self.mean = self.mean + (x - self.mean) / self.n
        self.sum = self.sum + x - self.mean - self.delta
        self.min = sym_min(self.min, self.sum)
        self.max = sym_max(self.max, self.sum)
        self.ph = self.sum - self.min if self.direction == "positive" else self.max - self.sum
        self.theta = self.threshold * self.mean
        self.exceeds = self.ph > self.theta
        return land(self.exceeds, self.n > self.burn_in)


class CusumSpec:
    def __init__(self, target, sd_hat, burn_in, delta, threshold, direction):
        self.target, self.sd = target, sd_hat
        self.burn_in, self.delta, self.threshold, self.direction = burn_in, delta, threshold, direction
        self.n = 0
        self.s_h = 0
        self.s_l = 0
        self.alarmed = False
        self.obs = []  # every observation seen so far (the documented carry-over reads the last burn_in of them)

    def prepare(self, x):
        """Epoch handling and estimation for the new observation.  Afterwards
        ``self.active`` tells whether the sums are computed at this step and
        ``zero_sd_error`` is the condition of the documented ValueError."""
        if self.alarmed:
            recent = self.obs[-self.burn_in:]
            self.target, self.sd = mean_of(recent), pop_std_of(recent)
            self.n, self.s_h, self.s_l = 0, 0, 0
            self.alarmed = False
        self.n += 1
        self.obs.append(x)
        self.x = x
        self.active = True
        if self.target is None:
            if self.n < self.burn_in:
                self.active = False
            else:
                first = self.obs[: self.burn_in]
                self.target, self.sd = mean_of(first), pop_std_of(first)
        self.past_burn_in = self.n > self.burn_in
        self.zero_sd_error = land(self.active, self.past_burn_in, self.sd == 0) if self.active else False

    def decide(self):
        """The alarm condition of this step (call after prepare, when no error)."""
        if not self.active:
            return False
        z = (self.x - self.target) / self.sd
        self.s_h = sym_max(0, self.s_h + z - self.delta)
        self.s_l = sym_max(0, self.s_l - z - self.delta)
        if not self.past_burn_in:
            return False
        up, lo = self.s_h > self.threshold, self.s_l > self.threshold
        return lor(up, lo) if self.direction is None else (up if self.direction == "positive" else lo)
