"""C07 - HDDDM/CDBD alarm exactly when the distance change exceeds the adaptive bound.

K (Hellinger): the real _hellinger_distance on symbolic non-negative integer
histograms: documented formula, 0 for proportional histograms, symmetric, <= sqrt(2).
A (alignment): the real update() on reference/test frames of symbolic cells
with np.histogram recorded: both histograms of a feature get the same number of
bins floor(sqrt(reference size)) and the same range (min, max) over both; with
the counting model of np.histogram an identical batch has distance 0.
B (epsilon / beta / decision / reference bookkeeping): per-feature distances are
symbolic (public divergence= hook, or the recorded jensenshannon for CDBD's
default), the bootstrap epsilon is a symbolic input of the specification; the
real update/reset/_adaptive_threshold are compared with a functional reference
of the statement after every batch.
"""
import importlib

import numpy as np
import pandas as pd

from symx import core
from symx.core import Sym, SymBool, cur, sym_max, sym_min
from symx.logic import b2i, between, iff, implies, ite, land, lnot, lor, state_is
from symx.run import Job

from . import stubs
from .common import obj_array, rebind
from .drivers import DRIVERS

PROPERTY = "C07"
ENCODED = [
    "menelaus.data_drift.histogram_density_method:HistogramDensityMethod.update",
    "menelaus.data_drift.histogram_density_method:HistogramDensityMethod.reset",
    "menelaus.data_drift.histogram_density_method:HistogramDensityMethod.set_reference",
    "menelaus.data_drift.histogram_density_method:HistogramDensityMethod._build_histograms",
    "menelaus.data_drift.histogram_density_method:HistogramDensityMethod._hellinger_distance",
    "menelaus.data_drift.histogram_density_method:HistogramDensityMethod._adaptive_threshold",
    "menelaus.data_drift.histogram_density_method:HistogramDensityMethod._KL_divergence",
    "menelaus.data_drift.cdbd:CDBD.update", "menelaus.data_drift.cdbd:CDBD.set_reference", "menelaus.data_drift.hdddm:HDDDM.update",
]
BOUNDS = {
    "quick": "Hellinger lemma: <=3 bins, counts unbounded symbolic integers; alignment: reference 4 rows + test 2-3 rows of symbolic "
             "cells, 1-2 features; decision logic: detect_batch in {1,2,3} x {stdev (symbolic significance), tstat (real t.ppf, "
             "significance 0.05)} x HDDDM (2 features) / CDBD, N<=4 (5 for detect_batch 3) batches",
    "thorough": "Hellinger 4 bins (formula, symmetry, proportional; the sqrt(2) bound stays at <=3 bins); decision logic N<=6 (7)",
}
OUTSIDE = ("the Jensen-Shannon distance's own axioms and its bound sqrt(ln 2) (scipy, compiled: recorded arguments only); quality "
           "of the bootstrap estimate (an input of the specification); symmetry of the *whole* pipeline follows from the alignment "
           "obligations plus the symmetric kernel and is not discharged as one query")
ASSUMPTIONS = [
    "np.histogram on symbolic data is the counting model c_k = #{i : e_k <= x_i < e_{k+1}} (last bin closed) on equally spaced edges "
    "over the given range; concatenate(...).min()/.max() are exact non-forking encodings",
    "decision-logic runs: batches are concrete placeholders, per-feature distances are uninterpreted non-negative functions of the "
    "two histograms, the bootstrap epsilon an uninterpreted non-negative function of (reference, subsets, ranges)",
]
TRUSTED = ["z3 nlsat", "scipy.stats.t.ppf on concrete arguments", "pandas concat / iloc"]


# --------------------------------------------------------------------------
# K: Hellinger


def body_hellinger(ctx, bins, mode):
    from menelaus.data_drift import HDDDM

    d = HDDDM()
    d._bins = bins
    r = [ctx.int(f"r{i}") for i in range(bins)]
    t = [ctx.int(f"t{i}") for i in range(bins)]
    for v in r + t:
        ctx.assume(v >= 0)
    rs, ts = sum(r, 0), sum(t, 0)
    ctx.assume(land(rs > 0, ts > 0))
    if mode == "proportional":
        k = ctx.int("k")
        ctx.assume(k >= 1)
        for i in range(bins):
            ctx.assume(r[i] == k * t[i])
    got = d._hellinger_distance(r, t)
    if mode == "formula":
        acc = 0
        for i in range(bins):
            a = np.sqrt(t[i] / ts) - np.sqrt(r[i] / rs)
            acc = acc + a * a
        ctx.prove(ctx.eq(got, np.sqrt(acc)), "hellinger-formula")
        ctx.prove(got >= 0, "hellinger-non-negative")
    elif mode == "symmetric":
        ctx.prove(ctx.eq(got, d._hellinger_distance(t, r)), "hellinger-symmetric")
    elif mode == "bound":
        ctx.prove(ctx.le(got * got, 2), "hellinger-at-most-sqrt-2")
    else:
        ctx.prove(ctx.eq(got, 0), "hellinger-zero-for-proportional-histograms")
    ctx.witness("lemma")


# --------------------------------------------------------------------------
# A: alignment


class _Cat:
    def __init__(self, parts):
        self.vals = [v for p in parts for v in list(p)]

    def min(self):
        return sym_min(*self.vals) if len(self.vals) > 1 else self.vals[0]

    def max(self):
        return sym_max(*self.vals) if len(self.vals) > 1 else self.vals[0]


def counting_histogram(values, bins, rng):
    lo, hi = rng
    width = (hi - lo) / bins
    counts = []
    for k in range(bins):
        a, b = lo + k * width, lo + (k + 1) * width
        c = 0
        for x in values:
            inside = land(x >= a, x < b) if k < bins - 1 else land(x >= a, x <= hi)
            c = c + b2i(inside)
        counts.append(c)
    return counts


def body_alignment(ctx, features, test_rows, identical):
    M = importlib.import_module("menelaus.data_drift.histogram_density_method")
    from menelaus.data_drift import HDDDM

    ref_rows = 4
    R = obj_array([[ctx.real(f"r{i}_{j}") for j in range(features)] for i in range(ref_rows)])
    if identical:
        T = R.copy()
    else:
        T = obj_array([[ctx.real(f"t{i}_{j}") for j in range(features)] for i in range(test_rows)])
    calls = []

    def histogram(a, bins=10, range=None, **kw):
        if any(v is not None and v is not False for v in kw.values()):
            raise core.Inconclusive(f"np.histogram counting model: unsupported arguments {kw!r}")
        vals = list(np.asarray(a, dtype=object))
        calls.append((vals, bins, range))
        return (np.array(counting_histogram(vals, bins, range), dtype=object), None)

    shim = stubs.NpShim(histogram=histogram, concatenate=lambda parts: _Cat(parts))
    det = HDDDM(detect_batch=3, statistic="stdev", significance=1.0)
    with rebind(M, np=shim):
        for f in range(features):
            ctx.assume(lnot(land(*[R[i, f] == R[0, f] for i in range(1, ref_rows)])))  # a non-degenerate range
        det.set_reference(R)
        det.update(T)
    nbins = int(np.floor(np.sqrt(ref_rows)))
    ctx.prove(len(calls) == 2 * features, "one-histogram-per-feature-and-window")
    for f in range(features):
        rc, tc = calls[f], calls[features + f]
        ctx.prove(all(a is b for a, b in zip(rc[0], R[:, f])) and all(a is b for a, b in zip(tc[0], T[:, f])),
                  "histograms-of-the-right-columns")
        ctx.prove(rc[1] == nbins and tc[1] == nbins, "bins-is-floor-sqrt-of-reference-size")
        both = list(R[:, f]) + list(T[:, f])
        lo, hi = sym_min(*both), sym_max(*both)
        ctx.prove(land(ctx.eq(rc[2][0], lo), ctx.eq(rc[2][1], hi), ctx.eq(tc[2][0], lo), ctx.eq(tc[2][1], hi)),
                  "common-range-spans-reference-and-batch")
    if identical:
        ctx.prove(ctx.eq(det.current_distance, 0), "identical-batch-has-distance-zero")
    ctx.witness("aligned")


# --------------------------------------------------------------------------
# B: decision logic vs functional reference


def _beta(prev, d, stat, scale):
    # (1/d) is evaluated in IEEE double arithmetic by the source before it meets the epsilons; the reference uses
    # the same double (spec literals are the doubles the source denotes)
    eps_hat = (1 / d) * sum(prev, 0)
    var = sum(((e - eps_hat) * (e - eps_hat) for e in prev), 0) / d
    sd = np.sqrt(var)
    if stat == "tstat":
        return eps_hat + scale * (sd / np.sqrt(d))
    return eps_hat + scale * sd


def body_decision(ctx, cls, db, stat, N, default_div, rows=4):
    M = importlib.import_module("menelaus.data_drift.histogram_density_method")
    import scipy.stats

    cfg = {"cls": cls, "detect_batch": db, "statistic": stat, "features": 2 if cls == "HDDDM" else 1, "rows": rows}
    with DRIVERS["HDM"](ctx, **cfg) as drv:
        js_memo = stubs.Memo()

        def js(a, b):
            def make():
                r = cur().real("js")
                cur().assume_unchecked(r >= 0)
                return r
            r = js_memo.get("js", (a, b), make)
            drv.div_calls.append((a, b, r))
            return r

        d = drv.det
        if default_div:
            from menelaus.data_drift import CDBD, HDDDM

            K = CDBD if cls == "CDBD" else HDDDM
            d2 = K(detect_batch=db, statistic=stat, significance=drv.params["significance"], subsets=3)  # default divergence
            d2._estimate_initial_epsilon = d._estimate_initial_epsilon
            d = drv.det = d2
        nf = cfg["features"]
        sig = drv.params["significance"]
        with rebind(M, jensenshannon=js):
            R = drv.fresh_batch("ref")
            ref_rows = [tuple(r) for r in R]
            d.set_reference(R)
            # ---- functional reference state of the current epoch
            eps_list = []  # epsilons of the epoch (without the bootstrap value)
            prev_dist = None
            since = 0
            ref_len = len(R)
            if db == 1:
                half = int(len(R) / 2)
                proxy = ref_rows[half:]
                ref_rows = ref_rows[:half]
                calls = drv.div_calls[-nf:]
                prev_dist = sum((c[2] for c in calls), 0) / nf
                prev_feat = [c[2] for c in calls]
                since = 1
                ref_rows = ref_rows + proxy
                ctx.prove(len(d.reference) == len(ref_rows), "detect_batch-1-splits-and-rejoins-the-reference")
            drifted = False
            for i in range(N):
                if drifted:
                    # the drifted batch replaced the reference; statistics restart
                    eps_list, prev_dist, since = [], None, 0
                    ref_rows = [tuple(r) for r in last_batch]
                    if db == 1:
                        ncalls = len(drv.div_calls)
                ncalls = len(drv.div_calls)
                ne0 = len(drv.eps0_calls)
                X = drv.step(i)
                last_batch = X
                calls = drv.div_calls[ncalls:]
                if drifted and db == 1:
                    # reset() split the new reference and evaluated the proxy half first
                    ctx.prove(len(calls) == 2 * nf, "proxy-batch-evaluated-after-drift")
                    pc = calls[:nf]
                    prev_dist = sum((c[2] for c in pc), 0) / nf
                    prev_feat = [c[2] for c in pc]
                    since = 1
                    calls = calls[nf:]
                drifted = False
                ctx.prove(len(calls) == nf, "one-distance-per-feature")
                if len(calls) == nf and not default_div:
                    # the divergence is handed (reference histogram, batch histogram) of the same feature, in that order, on
                    # the bin edges spanning both (a user-supplied divergence need not be symmetric)
                    ra, xa = np.array(ref_rows, dtype=float), np.asarray(X, dtype=float)
                    nb = int(np.floor(np.sqrt(len(ref_rows))))
                    ok = True
                    for f, c in enumerate(calls):
                        lo, hi = min(ra[:, f].min(), xa[:, f].min()), max(ra[:, f].max(), xa[:, f].max())
                        ok = ok and np.array_equal(np.asarray(c[0]), np.histogram(ra[:, f], bins=nb, range=(lo, hi))[0]) \
                            and np.array_equal(np.asarray(c[1]), np.histogram(xa[:, f], bins=nb, range=(lo, hi))[0])
                    ctx.prove(bool(ok), "divergence-gets-reference-then-batch-histogram-on-common-edges")
                feat = [c[2] for c in calls]
                dist = sum(feat, 0) / nf
                since += 1
                ctx.prove(ctx.eq(d.current_distance, dist), "distance-is-feature-average")
                ctx.prove(ctx.eq(d.distances[d.total_batches], dist), "distance-logged-under-batch-number")
                test_ok = since >= (3 if db == 3 else 2)
                drift = False
                if since >= 2:
                    delta = dist - prev_dist
                    eps = ite(delta >= 0, delta, -delta)
                    ctx.prove(ctx.eq(d.epsilon_values[d.total_batches], eps), "epsilon-is-absolute-change-of-distance")
                    if since == 2 and db != 3:
                        ctx.prove(len(drv.eps0_calls) == ne0 + 1, "bootstrap-epsilon-requested-once-at-second-batch")
                        prev = [drv.eps0_calls[-1][2]]
                        dsc = 1
                    else:
                        ctx.prove(len(drv.eps0_calls) == ne0, "bootstrap-epsilon-not-requested-again")
                        prev = list(eps_list)
                        dsc = since - 1
                    if test_ok:
                        if stat == "tstat":
                            dof = len(ref_rows) + len(X) - 2
                            scale = scipy.stats.t.ppf(1 - (sig / 2), dof)
                        else:
                            scale = sig
                        beta = _beta(prev, dsc, stat, scale)
                        ctx.prove(ctx.eq(d.beta, beta), "threshold-is-mean-plus-scaled-deviation-of-epoch-epsilons")
                        ctx.prove(ctx.eq(d.thresholds[d.total_batches], beta), "threshold-logged")
                        drift = eps > beta
                        ctx.prove(iff(state_is(d.drift_state, "drift"), drift), "drift-iff-epsilon-exceeds-threshold")
                    else:
                        ctx.prove(d.drift_state is None, "no-test-before-detect_batch")
                    eps_list.append(eps)
                else:
                    ctx.prove(d.drift_state is None, "no-test-on-first-batch")
                if state_is(d.drift_state, "drift") is True:
                    drifted = True
                    ctx.witness("drift")
                    ctx.prove(len(d.reference) == len(X) and np.allclose(d.reference.to_numpy().astype(float), np.asarray(X, dtype=float)),
                              "drifted-batch-replaces-the-reference")
                    if nf > 1:
                        fe = [a - b for a, b in zip(feat, prev_feat)]
                        info = d.feature_info
                        ctx.prove(land(*[ctx.eq(a, b) for a, b in zip(info["Feature_Distances"], feat)]), "feature_info-distances")
                        ctx.prove(land(*[ctx.eq(a, b) for a, b in zip(info["Epsilons"], fe)]), "feature_info-epsilons")
                        k = info["Significant_drift_in_variable "]
                        ctx.prove(land(*[fe[k] >= e for e in fe]), "feature_info-names-the-feature-whose-distance-grew-most")
                else:
                    ref_rows = ref_rows + [tuple(r) for r in X]
                    got = d.reference.to_numpy().astype(float)
                    ctx.prove(got.shape[0] == len(ref_rows) and np.allclose(got, np.array(ref_rows, dtype=float)),
                              "batch-appended-to-the-reference")
                    ctx.prove(d.reference_n == len(ref_rows), "reference_n")
                    prev_dist, prev_feat = dist, feat
                    ctx.witness("no-drift")


def jobs(tier):
    q = tier == "quick"
    out = []
    for bins in (1, 2, 3) if q else (1, 2, 3, 4):
        for mode in ("formula", "symmetric", "bound", "proportional"):
            if bins == 4 and mode == "bound":
                continue  # the sqrt(2) bound with 4 bins is "unknown" for z3 within 60 s: claimed for <=3 bins only
            out.append(Job(f"hellinger-b{bins}-{mode}", "checks.c07:body_hellinger", {"bins": bins, "mode": mode}, expect=("lemma",),
                           opts={"validate": 1, "query_timeout_ms": 60000}))
    for features in (1, 2):
        for tr in (2, 3):
            out.append(Job(f"align-f{features}-t{tr}", "checks.c07:body_alignment", {"features": features, "test_rows": tr, "identical": False},
                           expect=("aligned",), opts={"validate": 1}))
        out.append(Job(f"align-f{features}-identical", "checks.c07:body_alignment", {"features": features, "test_rows": 4, "identical": True},
                       expect=("aligned",), opts={"validate": 1}))
    for cls in ("HDDDM", "CDBD"):
        for db in (1, 2, 3):
            for stat in ("stdev", "tstat"):
                for default_div in (False, True):
                    if default_div and cls == "HDDDM":
                        continue  # HDDDM's default divergence is the Hellinger kernel (lemma above)
                    n = (4 if q else 6) + (1 if db == 3 else 0)
                    out.append(Job(f"decision-{cls}-db{db}-{stat}-default{int(default_div)}", "checks.c07:body_decision",
                                   {"cls": cls, "db": db, "stat": stat, "N": n, "default_div": default_div},
                                   expect=("drift", "no-drift"), opts={"validate": 1}))
        # batches with an odd number of rows (no row of the reference may get lost when nothing is split off)
        for db in (2, 3):
            out.append(Job(f"decision-{cls}-db{db}-stdev-odd-rows", "checks.c07:body_decision",
                           {"cls": cls, "db": db, "stat": "stdev", "N": 4 + (1 if db == 3 else 0), "default_div": False, "rows": 5},
                           expect=("drift", "no-drift"), opts={"validate": 1}))
    return out
