"""C16 - only agreement between label and prediction matters; unused arguments are unused.

R/S: two copies of a detector in the same arbitrary state receive label pairs
of *different encodings* (symbolic integers vs. equality-only opaque labels)
with the same agreement; z3 proves the complete states equal afterwards.
Because the step holds from every state, it holds along histories of any length.
R/B: LinearFourRates with 0/1 values passed as integers, booleans and
1-element containers; ADWINAccuracy histories; every detector with an
arbitrary object as its documented-unused argument vs. None.
"""
import copy

import numpy as np
import pandas as pd

from symx.core import Sym, SymBool, SymLabel, cur
from symx.logic import b2i, between, iff, implies, ite, land, lnot, lor, state_is
from symx.run import Job

from . import c05, stubs
from .common import obj_array, rebind, states_equal
from .c14 import SKIP_KEYS
from .drivers import DRIVERS

PROPERTY = "C16"
ENCODED = [
    "menelaus.concept_drift.ddm:DDM.update", "menelaus.concept_drift.eddm:EDDM.update",
    "menelaus.concept_drift.stepd:STEPD.update", "menelaus.concept_drift.adwin_accuracy:ADWINAccuracy.update",
    "menelaus.concept_drift.lfr:LinearFourRates.update", "menelaus.detector:StreamingDetector._validate_input",
    "menelaus.change_detection.adwin:ADWIN.update", "menelaus.change_detection.cusum:CUSUM.update",
    "menelaus.change_detection.page_hinkley:PageHinkley.update", "menelaus.data_drift.kdq_tree:KdqTreeStreaming.update",
    "menelaus.data_drift.kdq_tree:KdqTreeBatch.update", "menelaus.data_drift.histogram_density_method:HistogramDensityMethod.update",
    "menelaus.data_drift.nndvi:NNDVI.update", "menelaus.data_drift.pca_cd:PCACD.update",
]
BOUNDS = {
    "quick": "DDM/EDDM/STEPD: one step from an arbitrary state (unbounded history; STEPD window contents L<=2), integer labels vs "
             "opaque equality-only labels, with and without a container around them; ADWINAccuracy N<=6; LFR N<=3 with int / bool / "
             "list / array encodings of 0/1 and concrete bool / numpy.bool_ / numpy.int8 / mixed labels under every 0/1 pattern; unused arguments: 14 detectors, N<=3; concrete label types (str, bool, float, multi-class int, numpy int / str, a mixed-type alphabet, and the two labels in different containers) "
             "under every agreement pattern of length 6 for DDM, EDDM, STEPD, ADWINAccuracy",
    "thorough": "STEPD L<=3, ADWINAccuracy N<=8, LFR N<=4, unused arguments N<=4",
}
OUTSIDE = ("label types whose == is not an equivalence (float NaN); MD3 (C19)")
ASSUMPTIONS = [
    "a re-encoding of the labels is modelled by opaque values supporting only ==/!= (uninterpreted sort): whatever the code "
    "does with a label other than comparing it would raise on them",
    "kernel stubs of C01/C02 for the data-drift detectors in the unused-argument runs",
]
TRUSTED = ["z3", "CPython/numpy"]


def _wrap(kind, v):
    if kind == "plain":
        return v
    if kind == "list":
        return [v]
    if kind == "tuple":
        return (v,)
    if kind == "nested":
        return [[v]]
    if kind == "series":
        return pd.Series([v], dtype=object)
    a = np.empty(1, dtype=object)
    a[0] = v
    return a


def body_agreement_step(ctx, det, pre, aux, container):
    if det == "DDM":
        A, _ = c05.make_ddm_state(ctx, pre, aux)
        M = fake = None
    elif det == "EDDM":
        A, _ = c05.make_eddm_state(ctx, pre, aux)
        M = fake = None
    else:
        A, _, M, fake = c05.make_stepd_state(ctx, pre, aux)
    B = copy.deepcopy(A)  # proxies are immutable and shared: B is in exactly the same symbolic state
    yt, yp = ctx.int("y_true"), ctx.int("y_pred")
    zt, zp = ctx.label("z_true"), ctx.label("z_pred")
    ctx.assume(iff(yt == yp, zt == zp))
    if M is not None:
        with rebind(M, scipy=fake):
            A.update(yt, yp)
            B.update(_wrap(container, zt), _wrap(container, zp))
    else:
        A.update(yt, yp)
        B.update(_wrap(container, zt), _wrap(container, zp))
    ctx.prove(states_equal(ctx, vars(A), vars(B)), "same-agreement-same-state")
    ctx.witness("compared")


ENCODINGS = {
    "str": ("cat", "dog", "bird"),
    "bool": (True, False, True),
    "float": (0.5, 1.5, 2.5),
    "multiclass": (3, 7, 11),
    "npint": (np.int64(4), np.int64(9), np.int64(2)),
    "npstr": (np.str_("a"), np.str_("bb"), np.str_("ccc")),
    # label alphabets that mix types: a string and the number it spells are different labels ("1" != 1); code that brings
    # both labels to a common dtype before comparing them would make them equal
    "mixedtypes": (1, "1", 0.5, "0.5", True, "True"),
}


MIXED_CONTAINERS = (("list", "plain"), ("plain", "list"), ("tuple", "list"), ("nested", "list"), ("array", "plain"), ("series", "tuple"))


def body_concrete_encodings(ctx, det, enc, container, N):
    """agreement pattern symbolic (one fork per sample), label values concrete Python / numpy objects of the given
    type: guards against code that dispatches on the label's type (which an opaque proxy cannot exercise)"""
    from menelaus.concept_drift import DDM, EDDM, STEPD, ADWINAccuracy

    mk = {"DDM": lambda: DDM(n_threshold=2), "EDDM": lambda: EDDM(n_threshold=2), "STEPD": lambda: STEPD(window_size=2),
          "ADWINAccuracy": lambda: ADWINAccuracy(delta=1.0, max_buckets=2, new_sample_thresh=1, window_size_thresh=2,
                                                 subwindow_size_thresh=1, conservative_bound=True)}[det]
    A, B = mk(), mk()
    vals = ENCODINGS[enc]
    for i in range(N):
        agree = bool(ctx.bool(f"agree{i}"))
        a = vals[i % len(vals)]
        b = a if agree else vals[(i + 1) % len(vals)]
        if enc == "bool" and not agree:
            b = not a
        if enc == "mixedtypes" and not agree:
            b = vals[(i % len(vals)) ^ 1]  # the other spelling of the same value
        A.update(1, 1 if agree else 0)
        if container == "mixed":
            # a different presentation of the single observation for each of the two labels: code that compares the raw
            # arguments (a list is never equal to a scalar or a tuple) instead of the validated values would see a mismatch
            ca, cb = MIXED_CONTAINERS[i % len(MIXED_CONTAINERS)]
            B.update(_wrap(ca, a), _wrap(cb, b))
        else:
            B.update(_wrap(container, a), _wrap(container, b))
        sa = {k: v for k, v in vars(A).items() if k != "_bucket_row_list"}
        sb = {k: v for k, v in vars(B).items() if k != "_bucket_row_list"}
        ctx.prove(states_equal(ctx, sa, sb), "concrete-encoding-same-agreement-same-state")
    ctx.witness("compared")


def body_lfr_concrete(ctx, N, kind):
    """LFR with concrete Python / numpy booleans (and numpy integers) as labels, chosen by symbolic bits: real
    numpy.bool_ objects index arrays as masks, which a proxy cannot imitate"""
    with DRIVERS["LinearFourRates"](ctx, burn_in=0, rates_tracked=["ppv"]) as drv:
        A, B = drv.det, drv.twin()
        memo = stubs.Memo()
        for t in (A, B):
            t._sim_bounds = lambda est, den: memo.get("sim", (est, den), lambda: {k: cur().real(k) for k in
                                                                                   ("lb_warn", "ub_warn", "lb_detect", "ub_detect")})
        conv = {"bool": bool, "npbool": np.bool_, "npint8": np.int8, "mixed": None}[kind]
        for i in range(N):
            bt, bp = bool(ctx.bool(f"t{i}")), bool(ctx.bool(f"p{i}"))
            A.update(int(bt), int(bp))
            if kind == "mixed":
                B.update(np.bool_(bt), int(bp))
            else:
                B.update(conv(bt), conv(bp))
            ctx.prove(states_equal(ctx, vars(A), vars(B), skip=SKIP_KEYS), "lfr-depends-on-confusion-cell-only")
        ctx.witness("compared")


def body_adwinacc(ctx, N):
    from menelaus.concept_drift import ADWINAccuracy
    from .c03 import _layout

    cfg = dict(delta=1.0, max_buckets=2, new_sample_thresh=1, window_size_thresh=2, subwindow_size_thresh=1,
               conservative_bound=True)
    A, B = ADWINAccuracy(**cfg), ADWINAccuracy(**cfg)
    for i in range(N):
        yt, yp = ctx.int(f"yt{i}"), ctx.int(f"yp{i}")
        zt, zp = ctx.label(f"zt{i}"), ctx.label(f"zp{i}")
        ctx.assume(iff(yt == yp, zt == zp))
        A.update(yt, yp)
        B.update([zt], [zp])
        ok = (A.drift_state == B.drift_state and list(A.retraining_recs) == list(B.retraining_recs)
              and A._window_size == B._window_size and A._curr_total == B._curr_total
              and A._curr_variance == B._curr_variance and _layout(A) == _layout(B)
              and A.total_samples == B.total_samples and A.samples_since_reset == B.samples_since_reset)
        ctx.prove(ok, "same-agreement-same-state")
        if A.drift_state == "drift":
            ctx.witness("drift")
    ctx.witness("compared")


def body_lfr(ctx, N, encoding):
    with DRIVERS["LinearFourRates"](ctx, burn_in=0, rates_tracked=["ppv"]) as drv:
        A, B = drv.det, drv.twin()
        memo = stubs.Memo()
        for t in (A, B):
            t._sim_bounds = lambda est, den: memo.get("sim", (est, den), lambda: {k: cur().real(k) for k in
                                                                                   ("lb_warn", "ub_warn", "lb_detect", "ub_detect")})
        for i in range(N):
            yt, yp = drv.fresh_input(i)
            A.update(yt, yp)
            if encoding == "bool":
                B.update(yt == 1, yp == 1)
            elif encoding == "list":
                B.update([yt], [yp])
            else:
                B.update(_wrap("array", yt), _wrap("array", yp))
            ctx.prove(states_equal(ctx, vars(A), vars(B), skip=SKIP_KEYS), "lfr-depends-on-confusion-cell-only")
        ctx.witness("compared")


def _junk(ctx, i, kind):
    if kind == "label":
        return ctx.label(f"junk{i}")
    if kind == "array":
        return obj_array([[ctx.real(f"junk{i}a"), ctx.real(f"junk{i}b")], [ctx.real(f"junk{i}c"), ctx.real(f"junk{i}d")]])
    if kind == "frame":
        return pd.DataFrame({"q": ["x", "y", "z"]})
    return "garbage"


def body_unused(ctx, det, cfg, N, junk):
    Drv = DRIVERS[det]
    with Drv(ctx, **cfg) as drv:
        A, B = drv.det, drv.twin()
        if det in ("ADWIN", "ADWINAccuracy"):
            memo = stubs.Memo()
            for t in (A, B):
                t._check_epsilon = (lambda tt: (lambda n0, t0, n1, t1: memo.get("cut", (n0, t0, n1, t1, tt._window_size),
                                                                                lambda: cur().bool("cut"))))(t)
        if det == "LinearFourRates":
            memo = stubs.Memo()
            for t in (A, B):
                t._sim_bounds = lambda est, den: memo.get("sim", (est, den), lambda: {k: cur().real(k) for k in
                                                                                       ("lb_warn", "ub_warn", "lb_detect", "ub_detect")})
        if det in ("HDM", "NNDVI"):
            R = drv.fresh_batch("ref")
            A.set_reference(R)
            B.set_reference(R, y_true=_junk(ctx, 99, junk), y_pred=_junk(ctx, 98, junk))
        try:
            for i in range(N):
                x = drv.fresh_input(i)
                drv.apply(A, x)
                if isinstance(x, tuple):
                    B.update(x[0], x[1], X=_junk(ctx, i, junk))
                else:
                    B.update(x, y_true=_junk(ctx, i, junk), y_pred=_junk(ctx, 100 + i, junk))
                ctx.prove(states_equal(ctx, vars(A), vars(B), skip=SKIP_KEYS), "unused-argument-has-no-influence")
        except ValueError as e:
            if "Standard deviation is 0" in str(e):
                return
            raise
        ctx.witness("compared")


def jobs(tier):
    q = tier == "quick"
    out = []
    for det in ("DDM", "EDDM"):
        for pre in (None, "warning", "drift"):
            for r0 in (0, 1):
                if pre == "warning" and not r0:
                    continue
                for cont in ("plain", "list", "array"):
                    if q and cont == "array" and r0 == 0:
                        continue
                    out.append(Job(f"agree-{det}-{pre}-{r0}-{cont}", "checks.c16:body_agreement_step",
                                   {"det": det, "pre": pre, "aux": r0, "container": cont}, expect=("compared",)))
    for pre in (None, "warning", "drift"):
        for L in range(0, 3 if q else 4):
            if pre is not None and L == 0:
                continue  # an alarm needs two full windows: the window cannot be empty
            out.append(Job(f"agree-STEPD-{pre}-L{L}", "checks.c16:body_agreement_step",
                           {"det": "STEPD", "pre": pre, "aux": L, "container": "list" if L % 2 else "plain"},
                           expect=("compared",)))
    for det in ("DDM", "EDDM", "STEPD", "ADWINAccuracy"):
        for enc in ENCODINGS:
            cont = {"str": "list", "bool": "plain", "float": "array", "multiclass": "plain", "npint": "list", "npstr": "plain", "mixedtypes": "plain"}[enc]
            out.append(Job(f"encoding-{det}-{enc}", "checks.c16:body_concrete_encodings",
                           {"det": det, "enc": enc, "container": cont, "N": 6 if q else 8}, expect=("compared",),
                           opts={"validate": 0}))
        out.append(Job(f"encoding-{det}-mixed-containers", "checks.c16:body_concrete_encodings",
                       {"det": det, "enc": "multiclass", "container": "mixed", "N": 6 if q else 8}, expect=("compared",),
                       opts={"validate": 0}))
    out.append(Job("agree-ADWINAccuracy", "checks.c16:body_adwinacc", {"N": 6 if q else 8}, expect=("compared",),
                   opts={"validate": 0}))
    for kind in ("bool", "npbool", "npint8", "mixed"):
        out.append(Job(f"lfr-concrete-{kind}", "checks.c16:body_lfr_concrete", {"N": 3, "kind": kind}, expect=("compared",),
                       opts={"validate": 0}))
    for enc in ("bool", "list", "array"):
        out.append(Job(f"lfr-{enc}", "checks.c16:body_lfr", {"N": 3 if q else 4, "encoding": enc}, expect=("compared",)))
    dets = [("DDM", {"n_threshold": 1}), ("EDDM", {"n_threshold": 1}), ("STEPD", {"window_size": 1}),
            ("LinearFourRates", {"burn_in": 0, "rates_tracked": ["ppv"]}),
            ("ADWINAccuracy", {"max_buckets": 1, "new_sample_thresh": 1, "window_size_thresh": 0, "subwindow_size_thresh": 1}),
            ("ADWIN", {"max_buckets": 1, "new_sample_thresh": 1, "window_size_thresh": 0, "subwindow_size_thresh": 1}),
            ("CUSUM", {"burn_in": 1, "target_given": True, "ite_max": True}), ("PageHinkley", {"burn_in": 0}),
            ("KdqTreeStreaming", {"window_size": 1}), ("KdqTreeBatch", {}),
            ("HDM", {"cls": "HDDDM", "detect_batch": 2, "statistic": "stdev", "features": 2}),
            ("HDM", {"cls": "CDBD", "detect_batch": 1, "statistic": "stdev"}), ("NNDVI", {}),
            ("PCACD", {"window_size": 2})]
    for det, cfg in dets:
        for junk in ("label", "array", "string") if not q else ("label", "array"):
            n = 3 if q else 4
            if det == "PCACD":
                n = 7
            out.append(Job(f"unused-{cfg.get('cls', det)}-{junk}", "checks.c16:body_unused",
                           {"det": det, "cfg": cfg, "N": n, "junk": junk}, expect=("compared",)))
    return out
