"""C12 - an ensemble is its election applied to members that run exactly as if alone.

R with fully symbolic members: recording stubs with the exact signatures of
the real detector families whose drift_state / retraining_recs after each call
are fresh symbols (the most general member).  R with real members: the real
DDM / PageHinkley / CUSUM / ADWIN (streaming) and KdqTreeBatch / HDDDM / NNDVI
(batch) inside an ensemble against independently updated twins.
"""
from collections import OrderedDict

import numpy as np

from symx.core import Sym, SymBool, SymState, cur, sym_max
from symx.logic import b2i, between, iff, implies, ite, land, lnot, lor, state_is
from symx.run import Job

from . import stubs
from .common import rebind, states_equal, values_equal
from .drivers import DRIVERS

PROPERTY = "C12"
ENCODED = [
    "menelaus.ensemble.ensemble:Ensemble.__init__", "menelaus.ensemble.ensemble:Ensemble.update",
    "menelaus.ensemble.ensemble:Ensemble.reset", "menelaus.ensemble.ensemble:Ensemble.drift_states",
    "menelaus.ensemble.ensemble:Ensemble.retraining_recs",
    "menelaus.ensemble.ensemble:StreamingEnsemble.update", "menelaus.ensemble.ensemble:StreamingEnsemble.reset",
    "menelaus.ensemble.ensemble:BatchEnsemble.update", "menelaus.ensemble.ensemble:BatchEnsemble.reset",
    "menelaus.ensemble.ensemble:BatchEnsemble.set_reference",
]
BOUNDS = {
    "quick": "symbolic members: 1..3 members of mixed signature families, all 4 real election classes + a recording election, "
             "selectors present/absent per member, scripts of <=3 operations over {update, reset, set_reference}; real members: "
             "{DDM, PageHinkley, CUSUM, ADWIN} and {KdqTreeBatch, HDDDM, NNDVI} with N<=3 updates",
    "thorough": "symbolic members up to 4, scripts <=4; real members N<=4",
}
OUTSIDE = "more members / longer scripts than the bound; real-member runs stub the numeric kernels as in C01/C02"
ASSUMPTIONS = [
    "a member is any object with update(...)/reset()/(set_reference) and drift_state (and optionally retraining_recs): the "
    "stub members return arbitrary states and recommendations after every call",
    "selectors are arbitrary functions: modelled as functions returning a tagged wrapper of their argument, so that the member "
    "must receive exactly selector(X) (identity)",
    "real-member runs: ADWIN cut answers / kdq / HDM / NNDVI kernels are deterministic functions of their arguments shared "
    "with the twins",
]
TRUSTED = ["z3", "CPython executing the real ensemble and election code"]


class Selected:
    def __init__(self, key, data):
        self.key, self.data = key, data


class StubMember:
    """records every call; reports arbitrary state afterwards"""

    has_recs = True

    def __init__(self, key, log, with_recs):
        self.key, self.log = key, log
        self.drift_state = None
        if with_recs:
            self.retraining_recs = [None, None]

    concrete_states = False

    def _after(self):
        c = cur()
        st = c.state(f"st_{self.key}")
        if self.concrete_states:
            # a real None / "warning" / "drift" (one path each), as real members report: code that tests `is None` cannot
            # be followed on a proxy
            st = "drift" if state_is(st, "drift") else ("warning" if state_is(st, "warning") else None)
        self.drift_state = st
        if hasattr(self, "retraining_recs"):
            self.retraining_recs = [c.int(f"r0_{self.key}"), c.int(f"r1_{self.key}")]

    def reset(self):
        self.log.append((self.key, "reset"))
        self.drift_state = None


class StubXFirst(StubMember):  # change / data-drift signature
    def update(self, X, y_true=None, y_pred=None):
        self.log.append((self.key, "update", X, y_true, y_pred))
        self._after()


class StubYFirst(StubMember):  # concept-drift signature
    def update(self, y_true, y_pred, X=None):
        self.log.append((self.key, "update", X, y_true, y_pred))
        self._after()


class StubBatch(StubMember):
    def update(self, X, y_true=None, y_pred=None):
        self.log.append((self.key, "update", X, y_true, y_pred))
        self._after()

    def set_reference(self, X, y_true=None, y_pred=None):
        self.log.append((self.key, "set_reference", X, y_true, y_pred))


class RecordingElection:
    def __init__(self):
        self.calls = []

    def __call__(self, detectors):
        r = cur().state("election")
        self.calls.append((list(detectors), r))
        return r


def _election(kind, ctx):
    from menelaus.ensemble import election as E

    if kind == "majority":
        return E.SimpleMajorityElection(), E.SimpleMajorityElection()
    if kind == "minimum":
        a = ctx.int("approvals")
        ctx.assume(a >= 1)
        return E.MinimumApprovalElection(a), E.MinimumApprovalElection(a)
    if kind == "ordered":
        a, c = ctx.int("approvals"), ctx.int("confirmations")
        ctx.assume(land(a >= 1, c >= 0))
        return E.OrderedApprovalElection(a, c), E.OrderedApprovalElection(a, c)
    if kind == "confirmed":
        s, w = ctx.int("sensitivity"), ctx.int("wait_time")
        ctx.assume(land(w >= 0, w <= 2))
        return E.ConfirmedElection(s, w), E.ConfirmedElection(s, w)
    return RecordingElection(), None


class Spy:
    """wraps a real election: records the member list it was given and what it returned"""

    def __init__(self, inner):
        self.inner = inner
        self.calls = []

    def __call__(self, detectors):
        r = self.inner(detectors)
        self.calls.append((list(detectors), r))
        return r


class Frozen:
    """snapshot of member states for the twin election"""

    def __init__(self, st):
        self.drift_state = st


def body_symbolic(ctx, batch, families, selectors, election, script, concrete=False):
    from menelaus.ensemble import StreamingEnsemble, BatchEnsemble

    log = []
    members = OrderedDict()
    for i, fam in enumerate(families):
        key = f"m{i}"
        cls = {"x": StubXFirst, "y": StubYFirst, "b": StubBatch}[fam[0]]
        members[key] = cls(key, log, with_recs=fam.endswith("r"))
        members[key].concrete_states = concrete
    sel = {}
    for i, has in enumerate(selectors):
        if has:
            k = f"m{i}"
            sel[k] = (lambda kk: (lambda data: Selected(kk, data)))(k)
    el, twin_el = _election(election, ctx)
    if twin_el is not None:
        el = Spy(el)
    ens = (BatchEnsemble if batch else StreamingEnsemble)(dict(members), el, sel)
    total = since = 0
    keys = list(members)
    for step, op in enumerate(script):
        del log[:]
        if op == "update":
            X, yt, yp = object(), object(), object()
            ens.update(X, yt, yp)
            total, since = total + 1, since + 1
            # every member exactly once, in insertion order, with its selected X and the caller's labels
            ctx.prove([e[0] for e in log] == keys and all(e[1] == "update" for e in log), "each-member-updated-once-in-order")
            for k, e in zip(keys, log):
                if k in sel:
                    okx = isinstance(e[2], Selected) and e[2].key == k and e[2].data is X
                else:
                    okx = e[2] is X
                ctx.prove(okx and e[3] is yt and e[4] is yp, "member-gets-selected-X-and-labels")
            # election applied to the members in insertion order
            dets, r = el.calls[-1]
            ctx.prove(len(el.calls) == sum(1 for o in script[: step + 1] if o == "update"), "election-called-once-per-update")
            ctx.prove(len(dets) == len(keys) and all(d is members[k] for d, k in zip(dets, keys)),
                      "election-sees-members-in-insertion-order")
            ctx.prove(ens.drift_state is r, "state-is-election-result")
            if twin_el is not None and len(keys) <= 2:
                # independent instance of the same election class on the same states (the voting rules themselves are C13)
                want = twin_el([Frozen(members[k].drift_state) for k in keys])
                ctx.prove(want is r or want == r, "state-is-election-of-members")
            ctx.witness("update")
        elif op == "reset":
            ens.reset()
            since = 0
            ctx.prove([e[:2] for e in log] == [(k, "reset") for k in keys], "reset-reaches-every-member")
            ctx.prove(ens.drift_state is None, "reset-clears-state")
            ctx.witness("reset")
        else:
            X, yt, yp = object(), object(), object()
            ens.set_reference(X, yt, yp)
            ctx.prove([e[:2] for e in log] == [(k, "set_reference") for k in keys], "set_reference-reaches-every-member")
            for k, e in zip(keys, log):
                if k in sel:
                    okx = isinstance(e[2], Selected) and e[2].key == k and e[2].data is X
                else:
                    okx = e[2] is X
                ctx.prove(okx and e[3] is yt and e[4] is yp, "set_reference-passes-selected-X-and-labels")
            ctx.witness("set_reference")
        # views
        ds = ens.drift_states
        ctx.prove(list(ds.keys()) == keys and all(ds[k] is members[k].drift_state for k in keys), "drift_states-view")
        rr = ens.retraining_recs
        with_recs = [k for k in keys if hasattr(members[k], "retraining_recs")]
        ctx.prove(list(rr.keys()) == with_recs and all(rr[k] is members[k].retraining_recs for k in with_recs),
                  "retraining_recs-view")
        t_attr, s_attr = ("total_batches", "batches_since_reset") if batch else ("total_samples", "samples_since_reset")
        ctx.prove(getattr(ens, t_attr) == total and getattr(ens, s_attr) == since, "ensemble-counters")


# --------------------------------------------------------------------------
# real members vs independent twins


def body_real_stream(ctx, N, election, which):
    from menelaus.ensemble import StreamingEnsemble

    allspecs = [("DDM", {"n_threshold": 1}), ("PageHinkley", {"burn_in": 0}),
                ("CUSUM", {"burn_in": 1, "target_given": True, "ite_max": True}),
                ("ADWIN", {"max_buckets": 1, "new_sample_thresh": 1, "window_size_thresh": 0, "subwindow_size_thresh": 1})]
    specs = [sp for sp in allspecs if sp[0] in which]
    drivers = [DRIVERS[n](ctx, **c) for n, c in specs]
    memo = stubs.Memo()
    try:
        for d in drivers:
            d.__enter__()
        # ADWIN cut answers: one shared deterministic function of the query arguments
        def shared_cut(det):
            def check_epsilon(n0, t0, n1, t1):
                return memo.get("cut", (n0, t0, n1, t1, det._window_size), lambda: cur().bool("cut"))
            return check_epsilon
        members, twins = OrderedDict(), OrderedDict()
        for (n, _), d in zip(specs, drivers):
            members[n], twins[n] = d.det, d.twin()
        if "ADWIN" in members:
            members["ADWIN"]._check_epsilon = shared_cut(members["ADWIN"])
            twins["ADWIN"]._check_epsilon = shared_cut(twins["ADWIN"])
        el, _ = _election(election, ctx)
        ens = StreamingEnsemble(dict(members), el)
        for i in range(N):
            x, yt, yp = ctx.real(f"x{i}"), ctx.int(f"yt{i}"), ctx.int(f"yp{i}")
            try:
                ens.update(x, yt, yp)
            except ValueError as e:
                if "Standard deviation is 0" in str(e):
                    return
                raise
            for n, t in twins.items():
                if n == "DDM":
                    t.update(yt, yp)
                else:
                    t.update(x)
            for n in members:
                ctx.prove(states_equal(ctx, vars(members[n]), vars(twins[n]), skip=("_check_epsilon", "_bucket_row_list")),
                          f"member-equals-independent-twin")
            if "ADWIN" in members:
                ctx.prove(members["ADWIN"].mean() is twins["ADWIN"].mean() or
                          ctx.eq(members["ADWIN"].mean(), twins["ADWIN"].mean()), "member-equals-independent-twin")
            ctx.witness("compared")
            if any(state_is(m.drift_state, "drift") is True for m in members.values()):
                ctx.witness("some-member-drift")
    finally:
        for d in reversed(drivers):
            d.__exit__(None, None, None)


def body_real_batch(ctx, N, election):
    from menelaus.ensemble import BatchEnsemble

    specs = [("KdqTreeBatch", {}), ("HDM", {"detect_batch": 2, "statistic": "stdev", "features": 1, "rows": 2}),
             ("NNDVI", {})]
    drivers = [DRIVERS[n](ctx, **c) for n, c in specs]
    try:
        for d in drivers:
            d.__enter__()
        members, twins = OrderedDict(), OrderedDict()
        for (n, _), d in zip(specs, drivers):
            members[n], twins[n] = d.det, d.twin()
        el, _ = _election(election, ctx)
        ens = BatchEnsemble(dict(members), el)
        mk = drivers[1]  # concrete placeholder batches work for every stubbed member
        R = mk.fresh_batch("ref")
        ens.set_reference(R)
        for t in twins.values():
            t.set_reference(R)
        for i in range(N):
            X = mk.fresh_batch(f"b{i}")
            ens.update(X)
            for t in twins.values():
                t.update(X)
            for n in members:
                ctx.prove(states_equal(ctx, vars(members[n]), vars(twins[n]),
                                       skip=("_get_critical_kld", "_compute_drift_threshold", "_estimate_initial_epsilon",
                                             "distance_function")),
                          "member-equals-independent-twin")
            ctx.witness("compared")
            if any(state_is(m.drift_state, "drift") is True for m in members.values()):
                ctx.witness("some-member-drift")
    finally:
        for d in reversed(drivers):
            d.__exit__(None, None, None)


def jobs(tier):
    from itertools import product

    q = tier == "quick"
    out = []
    fam_stream = [("xr",), ("y",), ("xr", "yr"), ("y", "x", "xr")] + ([] if q else [("x", "yr", "x", "y")])
    fam_batch = [("br",), ("b", "br"), ("br", "b", "b")] + ([] if q else [("b", "br", "b", "br")])
    scripts_s = [("update", "update", "update"), ("update", "reset", "update")] + ([] if q else [("update", "update", "reset", "update")])
    scripts_b = [("set_reference", "update", "update"), ("update", "reset", "update"), ("update", "set_reference", "update")]
    for batch, fams, scripts in ((False, fam_stream, scripts_s), (True, fam_batch, scripts_b)):
        for fam in fams:
            for selmask in sorted({tuple(0 for _ in fam), tuple(1 for _ in fam), tuple(i % 2 for i in range(len(fam)))}):
                for election in ("majority", "minimum", "ordered", "confirmed", "recording"):
                    for si, script in enumerate(scripts):
                        if q and election in ("minimum", "ordered") and si > 0:
                            continue
                        if election == "confirmed" and len(fam) == 2 and si == 0 and q:
                            continue  # 3 consecutive updates x 2 members x stateful election: thorough tier only
                        if election != "recording" and (len(fam) > 2 or selmask != tuple(i % 2 for i in range(len(fam))) or si > 1):
                            continue  # the real elections fork on every member state: small configurations only;
                            # the recording election (no forks) covers all families / selector masks / scripts
                        out.append(Job(f"sym-{'batch' if batch else 'stream'}-{'.'.join(fam)}-sel{''.join(map(str, selmask))}-{election}-s{si}",
                                       "checks.c12:body_symbolic",
                                       {"batch": batch, "families": list(fam), "selectors": list(selmask),
                                        "election": election, "script": list(script), "concrete": len(fam) == 1 or (len(fam) == 2 and (election != "recording" or si > 0 or not q))},
                                       expect=("update",), opts={"validate": 1}))
    for election in ("majority",) if q else ("majority", "minimum"):
        for which, n in ((["DDM", "PageHinkley"], 3 if q else 4), (["CUSUM", "ADWIN"], 3 if q else 4),
                         (["DDM", "PageHinkley", "CUSUM", "ADWIN"], 2)):
            out.append(Job(f"real-stream-{election}-{'+'.join(which)}", "checks.c12:body_real_stream",
                           {"N": n, "election": election, "which": which},
                           expect=("compared", "some-member-drift"), opts={"validate": 1}))
        out.append(Job(f"real-batch-{election}", "checks.c12:body_real_batch", {"N": 3 if q else 4, "election": election},
                       expect=("compared", "some-member-drift"), opts={"validate": 1}))
    return out
