"""C04 - CUSUM and Page-Hinkley apply their sequential tests to the current observations.

PageHinkley: one step from an arbitrary state (unbounded history; symbolic
delta, threshold, burn_in) and short histories from the constructor, against
the reference recurrences, including the to_dataframe() row of the step.
CUSUM: one step from an arbitrary state whose observation buffer has older
entries (the statement demands dependence on the observation just supplied),
both mid-epoch and on the update after an alarm (re-estimation from the last
burn_in observations), plus histories from the constructor through estimation.
"""
import numpy as np

from symx.core import Sym, SymBool, sym_max
from symx.logic import b2i, between, iff, implies, ite, land, lnot, lor, state_is
from symx.run import Job
from specs.sequential_tests import CusumSpec, PageHinkleySpec, mean_of, pop_std_of

from .common import rebind, scalar

PROPERTY = "C04"
ENCODED = [
    "menelaus.change_detection.cusum:CUSUM.update", "menelaus.change_detection.cusum:CUSUM.reset",
    "menelaus.change_detection.page_hinkley:PageHinkley.update", "menelaus.change_detection.page_hinkley:PageHinkley.reset",
    "menelaus.change_detection.page_hinkley:PageHinkley.to_dataframe",
]
BOUNDS = {
    "quick": "PageHinkley: one inductive step (arbitrary state, symbolic unbounded burn_in) x 2 directions; histories N<=4 "
             "from the constructor. CUSUM: one step from an arbitrary state with since in {0..2}, 0 or 2 older buffered "
             "observations, burn_in in {1,2,3}, 3 directions, mid-epoch and after an alarm; histories from the constructor "
             "N=burn_in+2 (burn_in in {2,3}) through estimation; one post-alarm step whose buffer still holds an earlier epoch (since=3, burn_in=2) per direction; constant windows (zero deviation) after an alarm and during burn-in",
    "thorough": "as quick with since<=3, PageHinkley histories N<=5, CUSUM constructor histories N=burn_in+3",
}
OUTSIDE = "IEEE rounding (exact real arithmetic); sd_hat == 0 inside burn-in (division by zero; assumed away and counted)"
ASSUMPTIONS = [
    "floats are exact reals; sqrt(x) is the r>=0 with r*r=x; divisors are non-zero (assumption recorded per path)",
    "CUSUM S-step pre-state: len(_upper_bound)=len(_lower_bound)=since+1, the buffer holds at least `since` observations "
    "(representation invariant of the real code, established by construction in the B histories)",
    "builtin max() in cusum.py rebound to a non-forking ite (exactly max)",
]
TRUSTED = ["z3 nlsat", "numpy object-array mean/std dispatch"]


# --------------------------------------------------------------------------
# Page-Hinkley


def _ph_compare(ctx, d, spec, alarm, pre_drift):
    post = d.drift_state
    if pre_drift:
        # the state was cleared by the automatic reset; drift only if this step alarms
        ctx.prove(iff(state_is(post, "drift"), alarm), "ph-drift-iff-spec")
    else:
        ctx.prove(iff(state_is(post, "drift"), alarm), "ph-drift-iff-spec")
    ctx.prove(land(ctx.eq(scalar(d._mean), spec.mean), ctx.eq(scalar(d._sum), spec.sum),
                   ctx.eq(scalar(d._min), spec.min), ctx.eq(scalar(d._max), spec.max)), "ph-recurrences")
    row = d.to_dataframe().iloc[-1]
    ctx.prove(land(ctx.eq(scalar(row["change_scores"]), spec.x),
                   ctx.eq(scalar(row["page_hinkley_values"]), spec.sum),
                   ctx.eq(scalar(row["page_hinkley_differences"]), spec.ph),
                   ctx.eq(scalar(row["theta_threshold"]), spec.theta),
                   ctx.eq(scalar(row["maximum_sum_values"]), spec.max),
                   ctx.eq(scalar(row["minimum_sum_values"]), spec.min),
                   ctx.eq(scalar(row["mean_values"]), spec.mean)), "ph-dataframe-row")
    dd = scalar(row["drift_detected"])
    ctx.prove(iff(dd, spec.exceeds), "ph-dataframe-drift_detected")
    ctx.prove(len(d.to_dataframe()) == (spec.n if isinstance(spec.n, int) else len(d.to_dataframe())), "ph-dataframe-length")
    ctx.witness(f"state-{post}")


def body_ph_step(ctx, direction, pre):
    from menelaus.change_detection import PageHinkley

    burn, delta, thr = ctx.int("burn_in"), ctx.real("delta"), ctx.real("threshold")
    d = PageHinkley(delta=delta, threshold=thr, burn_in=burn, direction=direction)
    spec = PageHinkleySpec(delta, thr, burn, direction)
    total, since = ctx.int("total"), ctx.int("since")
    ctx.assume(land(since >= 0, since <= total))
    if pre == "drift":
        ctx.assume(since > burn)
    d._total_samples, d._samples_since_reset, d._drift_state = total, since, pre
    m, sm, mn, mx = ctx.real("mean"), ctx.real("sum"), ctx.real("min"), ctx.real("max")
    ctx.assume(land(mn <= sm, sm <= mx, mn <= 0, mx >= 0))
    d._mean, d._sum, d._min, d._max = m, sm, mn, mx
    spec.n, spec.mean, spec.sum, spec.min, spec.max = since, m, sm, mn, mx
    spec.alarmed = pre == "drift"
    x = ctx.real("x")
    spec.x = x
    alarm = spec.step(x)
    d.update(x)
    _ph_compare(ctx, d, spec, alarm, pre == "drift")


def body_ph_hist(ctx, direction, burn, N):
    from menelaus.change_detection import PageHinkley

    delta, thr = ctx.real("delta"), ctx.real("threshold")
    d = PageHinkley(delta=delta, threshold=thr, burn_in=burn, direction=direction)
    spec = PageHinkleySpec(delta, thr, burn, direction)
    for i in range(N):
        x = ctx.real(f"x{i}")
        spec.x = x
        pre = d.drift_state == "drift"
        if pre:
            ctx.witness("after-drift")
        alarm = spec.step(x)
        d.update(x)
        _ph_compare(ctx, d, spec, alarm, pre)
        spec.alarmed = d.drift_state == "drift"


# --------------------------------------------------------------------------
# CUSUM


def _exact_zero(v):
    import z3

    if v is None:
        return False
    if isinstance(v, Sym):
        z = z3.simplify(v.z)
        return (z3.is_rational_value(z) or z3.is_int_value(z)) and z.as_fraction() == 0
    return bool(v == 0)


def _cusum_run(ctx, d, spec, x, floats=False):
    """run one update of implementation and specification and compare (floats=True: all values are concrete doubles -
    statistics are compared with a tolerance and a decision closer than 1e-9 to the threshold is not compared)"""
    from menelaus.change_detection import cusum as M

    eqf = (lambda u, v: ctx.approx(u, v, 1e-7)) if floats else ctx.eq
    spec.prepare(x)
    try:
        with rebind(M, max=sym_max):
            d.update(x)
    except ValueError as e:
        if "Standard deviation is 0" not in str(e):
            raise
        ctx.prove(spec.zero_sd_error, "cusum-zero-sd-error-only-as-documented")
        ctx.witness("zero-sd")
        return False
    ctx.prove(lnot(spec.zero_sd_error), "cusum-zero-sd-must-raise")
    alarm = spec.decide()
    post = d.drift_state
    close_call = floats and spec.active and (abs(spec.s_h - spec.threshold) < 1e-9 or abs(spec.s_l - spec.threshold) < 1e-9)
    if not close_call:
        ctx.prove(iff(state_is(post, "drift"), alarm), "cusum-drift-iff-spec")
    ctx.prove(lnot(state_is(post, "warning")), "cusum-never-warns")
    zero_sd = _exact_zero(spec.sd)  # the sums are inf / nan there: not compared
    if spec.active and not zero_sd:
        # the code reads its sums back by position (index samples_since_reset - 1): the representation is one entry per
        # sample of the epoch after the initial 0, and the entry of this sample is the specification's sum
        n = d.samples_since_reset
        ctx.prove(len(d._upper_bound) == n + 1 and len(d._lower_bound) == n + 1, "cusum-one-sum-per-sample-of-the-epoch")
        if len(d._upper_bound) > n and len(d._lower_bound) > n:
            ctx.prove(land(eqf(scalar(d._upper_bound[n]), spec.s_h), eqf(scalar(d._lower_bound[n]), spec.s_l)),
                      "cusum-sums-equal-spec")
        ctx.prove(land(eqf(scalar(d.target), spec.target), eqf(scalar(d.sd_hat), spec.sd)), "cusum-target-sd")
    spec.alarmed = state_is(post, "drift") is True
    ctx.witness(f"state-{post}")
    return True


def body_cusum_step(ctx, burn, direction, pre, since, older):
    from menelaus.change_detection import CUSUM

    delta, thr = ctx.real("delta"), ctx.real("threshold")
    target, sd = ctx.real("target"), ctx.real("sd_hat")
    ctx.assume(sd > 0)
    d = CUSUM(target=target, sd_hat=sd, burn_in=burn, delta=delta, threshold=thr, direction=direction)
    spec = CusumSpec(target, sd, burn, delta, thr, direction)
    total = ctx.int("total")
    ctx.assume(total >= since + older)
    # observation buffer: `older` observations of earlier epochs, then `since` of the current one
    stream = [ctx.real(f"old{i}") for i in range(older + since)]
    d._stream = [np.array([[v]], dtype=object) for v in stream]
    spec.obs = list(stream)
    sh, sl = ctx.real("s_h"), ctx.real("s_l")
    ctx.assume(land(sh >= 0, sl >= 0))
    d._upper_bound = [0] + [ctx.real(f"uh{i}") for i in range(since - 1)] + ([sh] if since else [])
    d._lower_bound = [0] + [ctx.real(f"ul{i}") for i in range(since - 1)] + ([sl] if since else [])
    if since == 0:
        sh, sl = 0, 0
    d._total_samples, d._samples_since_reset, d._drift_state = total, since, pre
    spec.n, spec.s_h, spec.s_l, spec.alarmed = since, sh, sl, pre == "drift"
    if pre == "drift":
        if len(stream) < burn or since <= burn:
            ctx.assume(False)  # an alarm needs since > burn_in buffered observations
    _cusum_run(ctx, d, spec, ctx.real("x"))


def body_cusum_reestimate_constant(ctx, burn, since):
    """the update after an alarm when the last burn_in observations are all equal: the documented carry-over is
    their mean and a standard deviation of exactly 0 (divisions by it are havoc'd: numpy gives inf/nan there)"""
    from menelaus.change_detection import cusum as M

    delta, thr = ctx.real("delta"), ctx.real("threshold")
    old_t, old_sd = ctx.real("old_target"), ctx.real("old_sd")
    ctx.assume(old_sd > 0)
    d = M.CUSUM(target=old_t, sd_hat=old_sd, burn_in=burn, delta=delta, threshold=thr)
    level = ctx.real("plateau")
    stream = [ctx.real(f"old{i}") for i in range(since - burn)] + [level] * burn
    d._stream = [np.array([[v]], dtype=object) for v in stream]
    d._upper_bound = [0] + [ctx.real(f"uh{i}") for i in range(since)]
    d._lower_bound = [0] + [ctx.real(f"ul{i}") for i in range(since)]
    total = ctx.int("total")
    ctx.assume(total >= since)
    d._total_samples, d._samples_since_reset, d._drift_state = total, since, "drift"
    with rebind(M, max=sym_max):
        d.update(ctx.real("x"))
    ctx.prove(ctx.eq(scalar(d.target), level), "cusum-target-reestimated-from-last-burn_in")
    ctx.prove(ctx.eq(scalar(d.sd_hat), 0), "cusum-sd-reestimated-from-last-burn_in (zero for a constant window)")
    ctx.prove(d.samples_since_reset == 1, "cusum-restarts")
    ctx.witness("constant-window")


def body_cusum_hist(ctx, burn, direction, N, target_given):
    from menelaus.change_detection import CUSUM

    delta, thr = ctx.real("delta"), ctx.real("threshold")
    if target_given:
        target, sd = ctx.real("target"), ctx.real("sd_hat")
        ctx.assume(sd > 0)
    else:
        target, sd = None, None
    d = CUSUM(target=target, sd_hat=sd, burn_in=burn, delta=delta, threshold=thr, direction=direction)
    spec = CusumSpec(target, sd, burn, delta, thr, direction)
    for i in range(N):
        if d.drift_state == "drift":
            ctx.witness("after-drift")
        if not _cusum_run(ctx, d, spec, ctx.real(f"x{i}")):
            return


def body_cusum_levels(ctx, burn, direction, N, levels, target_given):
    """every observation is one of a few concrete levels (one solver-driven choice per sample), so the detector runs on
    real float arrays (dtype conversions, in-place arithmetic on what it stores) through several epochs; compared with
    the reference recurrences after every update.  Seed C04-9 standardised the stored observation in place."""
    from menelaus.change_detection import CUSUM

    delta, thr = 0.25, 1.5
    target, sd = (1.0, 2.0) if target_given else (None, None)
    d = CUSUM(target=target, sd_hat=sd, burn_in=burn, delta=delta, threshold=thr, direction=direction)
    spec = CusumSpec(target, sd, burn, delta, thr, direction)
    epochs = 0
    for i in range(N):
        if d.drift_state == "drift":
            epochs += 1
            ctx.witness("after-drift")
            if epochs >= 2:
                ctx.witness("third-epoch")
        k = ctx.int(f"level{i}")
        ctx.assume(between(0, k, len(levels) - 1))
        x = float(levels[int(k)])
        if not _cusum_run(ctx, d, spec, x, floats=True):
            return


def body_cusum_zero_deviation(ctx, burn):
    """a constant burn-in window: the estimated deviation is exactly 0 and the documented ValueError must follow on the
    first tested observation (the division by the zero deviation in between is havoc'd, as numpy's inf / nan would be)"""
    from menelaus.change_detection import CUSUM

    delta, thr = ctx.real("delta"), ctx.real("threshold")
    d = CUSUM(target=None, sd_hat=None, burn_in=burn, delta=delta, threshold=thr)
    spec = CusumSpec(None, None, burn, delta, thr, None)
    level = ctx.real("plateau")
    for i in range(burn + 1):
        if not _cusum_run(ctx, d, spec, level if i < burn else ctx.real("x")):
            return
    ctx.prove(False, "cusum-zero-sd-must-raise")


def jobs(tier):
    q = tier == "quick"
    out = []
    for direction in (None, "positive"):
        for tg in (False, True):
            out.append(Job(f"cusum-levels-{direction}-tg{int(tg)}", "checks.c04:body_cusum_levels",
                           {"burn": 2, "direction": direction, "N": 11 if q else 13, "levels": [0, 6], "target_given": tg},
                           expect=("after-drift", "third-epoch") if tg else ("after-drift",), opts={"validate": 1}))
    for direction in ("positive", "negative"):
        for pre in (None, "drift"):
            out.append(Job(f"ph-step-{direction}-{pre}", "checks.c04:body_ph_step", {"direction": direction, "pre": pre},
                           expect=("state-drift", "state-None")))
        for burn in (0, 1):
            out.append(Job(f"ph-hist-{direction}-b{burn}", "checks.c04:body_ph_hist",
                           {"direction": direction, "burn": burn, "N": 4 if q else 5},
                           expect=("state-drift", "after-drift")))
    for burn in (1, 2, 3):
        for direction in (None, "positive", "negative"):
            for pre in (None, "drift"):
                for since in range(0, 4):
                    for older in (0, 2):
                        if q and since == 3 and not (pre == "drift" and burn == 2 and older == 2):
                            continue  # quick: the one re-estimation step whose buffer still holds an earlier epoch
                        if pre == "drift" and (since <= burn or older + since < burn):
                            continue
                        if pre == "drift" and burn == 1:
                            continue  # the deviation of one observation is 0: division by zero (outside the model)
                        if q and direction is not None and (older == 0 or burn == 3):
                            continue
                        out.append(Job(f"cusum-step-b{burn}-{direction}-{pre}-s{since}-o{older}",
                                       "checks.c04:body_cusum_step",
                                       {"burn": burn, "direction": direction, "pre": pre, "since": since, "older": older}))
    for burn in (2, 3):
        out.append(Job(f"cusum-reestimate-constant-b{burn}", "checks.c04:body_cusum_reestimate_constant",
                       {"burn": burn, "since": burn + 1}, expect=("constant-window",),
                       opts={"div_policy": "havoc_zero", "validate": 1}))
    for burn in (2, 3):
        for tg in (False, True):
            out.append(Job(f"cusum-hist-b{burn}-tg{int(tg)}", "checks.c04:body_cusum_hist",
                           {"burn": burn, "direction": None, "N": burn + (2 if q else 3), "target_given": tg},
                           expect=("state-drift",),
                           # a deviation forced to 0 does not end the path (numpy gives inf / nan and goes on)
                           opts={} if tg else {"div_policy": "havoc_zero"}))
    for burn in (2, 3):
        out.append(Job(f"cusum-zero-deviation-b{burn}", "checks.c04:body_cusum_zero_deviation", {"burn": burn},
                       expect=("zero-sd",), opts={"div_policy": "havoc_zero", "validate": 1}))
    return out
