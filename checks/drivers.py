"""Detector drivers: construct a real detector, install the contract stubs it
needs (module-global rebinding only) and feed it symbolic accepted inputs.

Used by the bounded-history (shape B) and relational (shape R) obligations of
several properties.
"""
from __future__ import annotations

import contextlib
import types

import numpy as np
import pandas as pd

from symx import core
from symx.core import Sym, SymBool, SymState, cur, is_sym, sym_max, sym_min
from symx.logic import b2i, between, iff, implies, ite, land, lnot, lor, state_is

from . import stubs
from .common import obj_array, rebind, scalar


class Driver:
    name = "?"
    kind = "stream"  # or "batch"
    total_attr = "total_samples"
    since_attr = "samples_since_reset"
    has_recs = False
    warns = False  # may report "warning"
    recs_span_epochs = False  # ADWIN: the retained window (and so recs) may reach before the last drift

    def __init__(self, ctx, **cfg):
        self.ctx = ctx
        self.cfg = cfg
        self.stack = contextlib.ExitStack()
        self.inputs = []

    # -- lifecycle
    def __enter__(self):
        self.stack.__enter__()
        self.install()
        self.det = self.make()
        return self

    def __exit__(self, *a):
        return self.stack.__exit__(*a)

    def install(self):
        pass

    def make(self):
        raise NotImplementedError

    def twin(self):
        """A newly constructed detector with the same parameters."""
        return self.make()

    # -- feeding
    def fresh_input(self, i):
        raise NotImplementedError

    def apply(self, det, x):
        det.update(x)

    def step(self, i):
        x = self.fresh_input(i)
        self.inputs.append(x)
        self.apply(self.det, x)
        return x

    # -- contract table
    def restart_value(self):
        return 1

    def counters(self, det=None):
        det = det or self.det
        return getattr(det, self.total_attr), getattr(det, self.since_attr)

    def warm(self, det, since_after, total_after):
        """Condition that must hold whenever the state after an update is not None."""
        return True


# --------------------------------------------------------------------------
# change detection


class CusumDriver(Driver):
    """cfg: burn_in (int), direction, target_given (bool), havoc_stats (bool)"""

    name = "CUSUM"

    def install(self):
        from menelaus.change_detection import cusum as M

        self.M = M
        names = {}
        if self.cfg.get("ite_max"):
            names["max"] = sym_max  # non-forking max (ite); default: builtin max forks
        if self.cfg.get("havoc_stats"):
            # lifecycle obligations only: every statistic is an arbitrary real
            names["np"] = stubs.np_mean_std_havoc()
            names["max"] = lambda *a: cur().real("havoc_max")
        self.stack.enter_context(rebind(M, **names))

    def make(self):
        c = self.ctx
        if not hasattr(self, "params"):
            tg = self.cfg.get("target_given")
            sd = c.real("sd_hat0") if tg else None
            if tg:
                c.assume(sd > 0)
            self.params = dict(
                target=c.real("target0") if tg else None,
                sd_hat=sd,
                burn_in=self.cfg["burn_in"],
                delta=c.real("delta"),
                threshold=c.real("threshold"),
                direction=self.cfg.get("direction"),
            )
        return self.M.CUSUM(**self.params)

    def fresh_input(self, i):
        return self.ctx.real(f"x{i}")

    def warm(self, det, since_after, total_after):
        return since_after > self.cfg["burn_in"]


class PHDriver(Driver):
    name = "PageHinkley"

    def install(self):
        from menelaus.change_detection import page_hinkley as M

        self.M = M

    def make(self):
        c = self.ctx
        if not hasattr(self, "params"):
            self.params = dict(delta=c.real("delta"), threshold=c.real("threshold"),
                               burn_in=self.cfg["burn_in"], direction=self.cfg.get("direction", "positive"))
        return self.M.PageHinkley(**self.params)

    def fresh_input(self, i):
        return self.ctx.real(f"x{i}")

    def warm(self, det, since_after, total_after):
        return since_after > self.cfg["burn_in"]


class AdwinDriver(Driver):
    """cfg: max_buckets, new_sample_thresh, window_size_thresh, subwindow_size_thresh,
    havoc_cut (bool: _check_epsilon answers are free booleans, recorded)"""

    name = "ADWIN"
    has_recs = True
    recs_span_epochs = True

    def install(self):
        from menelaus.change_detection import adwin as M

        self.M = M
        self.stack.enter_context(rebind(M, zeros=stubs.object_zeros))
        self.cut_calls = []
        self.cut_extra = []  # (decision with the extra arguments, decision from the current window) per such call

    def _params(self):
        c = self.ctx
        if not hasattr(self, "params"):
            self.params = dict(
                delta=self.cfg.get("delta", 0.002),
                max_buckets=self.cfg.get("max_buckets", 5),
                new_sample_thresh=self.cfg.get("new_sample_thresh", 1),
                window_size_thresh=self.cfg.get("window_size_thresh", 1),
                subwindow_size_thresh=self.cfg.get("subwindow_size_thresh", 1),
                conservative_bound=self.cfg.get("conservative_bound", False),
            )
        return self.params

    def _cls(self):
        return self.M.ADWIN

    def make(self):
        d = self._cls()(**self._params())
        if self.cfg.get("havoc_cut", True):
            calls = self.cut_calls

            extra_calls = self.cut_extra

            def check_epsilon(n0, t0, n1, t1, *extra, _d=d, **kw):
                b = cur().bool("cut")
                calls.append((n0, t0, n1, t1, b, _d._window_size, _d.total_samples))
                if extra or kw:
                    # the caller hands over more than the two sub-windows (e.g. a variance or confidence term computed
                    # earlier): the decision must still be the one the real method takes from the *current* window
                    real = type(_d)._check_epsilon
                    extra_calls.append((real(_d, n0, t0, n1, t1, *extra, **kw), real(_d, n0, t0, n1, t1)))
                return b

            d._check_epsilon = check_epsilon
        return d

    def pre_update(self, det):
        # the minimum-window guard is about the window *including* the new sample: remember the length before the update
        self.__dict__.setdefault("_window_before", {})[id(det)] = det._window_size

    def fresh_input(self, i):
        return self.ctx.real(f"x{i}")

    def warm(self, det, since_after, total_after):
        p = self._params()
        scheduled = total_after % p["new_sample_thresh"] == 0
        before = self.__dict__.get("_window_before", {}).get(id(det))
        if before is None:
            return scheduled
        return land(scheduled, before + 1 > p["window_size_thresh"])


class AdwinAccDriver(AdwinDriver):
    name = "ADWINAccuracy"

    def _cls(self):
        from menelaus.concept_drift import adwin_accuracy as A

        return A.ADWINAccuracy

    def fresh_input(self, i):
        return (self.ctx.int(f"yt{i}"), self.ctx.int(f"yp{i}"))

    def apply(self, det, x):
        det.update(x[0], x[1])


# --------------------------------------------------------------------------
# concept drift (label streams)


class LabelDriver(Driver):
    has_recs = True
    warns = True

    def fresh_input(self, i):
        return (self.ctx.int(f"yt{i}"), self.ctx.int(f"yp{i}"))

    def apply(self, det, x):
        det.update(x[0], x[1])


class DDMDriver(LabelDriver):
    name = "DDM"

    def make(self):
        from menelaus.concept_drift import DDM

        c = self.ctx
        if not hasattr(self, "params"):
            self.params = dict(n_threshold=self.cfg["n_threshold"], warning_scale=c.real("warning_scale"),
                               drift_scale=c.real("drift_scale"))
        return DDM(**self.params)

    def warm(self, det, since_after, total_after):
        return since_after >= self.cfg["n_threshold"]


class EDDMDriver(LabelDriver):
    name = "EDDM"

    def make(self):
        from menelaus.concept_drift import EDDM

        c = self.ctx
        if not hasattr(self, "params"):
            self.params = dict(n_threshold=self.cfg["n_threshold"], warning_thresh=c.real("warning_thresh"),
                               drift_thresh=c.real("drift_thresh"))
        return EDDM(**self.params)

    def warm(self, det, since_after, total_after):
        return det._n_errors >= self.cfg["n_threshold"]


class STEPDDriver(LabelDriver):
    name = "STEPD"

    def install(self):
        from menelaus.concept_drift import stepd as M

        self.M = M
        self.stack.enter_context(rebind(M, scipy=stubs.fake_scipy_norm(uf=self.cfg.get("phi_uf", False))))

    def make(self):
        c = self.ctx
        if not hasattr(self, "params"):
            self.params = dict(window_size=self.cfg["window_size"], alpha_warning=c.real("alpha_warning"),
                               alpha_drift=c.real("alpha_drift"))
        return self.M.STEPD(**self.params)

    def warm(self, det, since_after, total_after):
        return since_after >= 2 * self.cfg["window_size"]


class LFRDriver(LabelDriver):
    """cfg: burn_in, subsample, rates_tracked, round_val"""

    name = "LinearFourRates"

    def install(self):
        self.sim_calls = []

    def make(self):
        from menelaus.concept_drift import LinearFourRates

        c = self.ctx
        if not hasattr(self, "params"):
            self.params = dict(time_decay_factor=c.real("eta"), warning_level=c.real("warning_level"),
                               detect_level=c.real("detect_level"), burn_in=self.cfg["burn_in"], num_mc=2,
                               subsample=self.cfg.get("subsample", 1),
                               rates_tracked=list(self.cfg.get("rates_tracked", ["tpr", "tnr", "ppv", "npv"])),
                               round_val=self.cfg.get("round_val", 4))
            c.assume(land(self.params["time_decay_factor"] > 0, self.params["time_decay_factor"] < 1))
        d = LinearFourRates(**self.params)
        calls = self.sim_calls

        def sim_bounds(est_rate, denom, _d=d):
            cc = cur()
            b = {k: cc.real(k) for k in ("lb_warn", "ub_warn", "lb_detect", "ub_detect")}
            calls.append((est_rate, denom, b))
            return b

        d._sim_bounds = sim_bounds
        return d

    def fresh_input(self, i):
        c = self.ctx
        yt, yp = c.int(f"yt{i}"), c.int(f"yp{i}")
        c.assume(land(between(0, yt, 1), between(0, yp, 1)))
        return (yt, yp)

    def warm(self, det, since_after, total_after):
        return land(since_after > self.cfg["burn_in"], since_after % self.cfg.get("subsample", 1) == 0)


DRIVERS = {
    "CUSUM": CusumDriver,
    "PageHinkley": PHDriver,
    "ADWIN": AdwinDriver,
    "ADWINAccuracy": AdwinAccDriver,
    "DDM": DDMDriver,
    "EDDM": EDDMDriver,
    "STEPD": STEPDDriver,
    "LinearFourRates": LFRDriver,
}


# --------------------------------------------------------------------------
# data drift


class FakeKdqPartitioner:
    """Stand-in for KDQTreePartitioner inside kdq_tree.py (decision-logic
    obligations): records build/fill arguments; the divergence is a fresh real
    per evaluation.  Contract assumed: none beyond determinism of the recorded
    calls -- the real partitioner is verified on its own (C08)."""

    log = None  # set per driver
    memo = None

    def __init__(self, count_ubound=200, cutpoint_proportion_lbound=0.25):
        self.count_ubound = count_ubound
        self.cutpoint_proportion_lbound = cutpoint_proportion_lbound
        self.built = None
        self.fills = []
        self.leaves = []

    def build(self, data):
        self.built = data
        FakeKdqPartitioner.log.append(("build", data))

    def leaf_counts(self, tree_id):
        return [len(self.built)]

    def fill(self, data, tree_id, reset=False):
        if reset:
            self.fills = [f for f in self.fills if f[1] != tree_id]
        self.fills.append((data, tree_id, reset))
        FakeKdqPartitioner.log.append(("fill", data, tree_id, reset))

    def kl_distance(self, tree_id1, tree_id2):
        # a function of the tree (build data) and of everything filled since
        args = (self.built, [(f[0], f[1]) for f in self.fills], tree_id1, tree_id2)
        r = FakeKdqPartitioner.memo.get("kl", args, lambda: cur().real("kl"))
        FakeKdqPartitioner.log.append(("kl", tree_id1, tree_id2, r))
        return r

    @staticmethod
    def _distn_from_counts(counts):
        return counts


class KdqDriverBase(Driver):
    def install(self):
        from menelaus.data_drift import kdq_tree as M

        self.M = M
        self.log = []
        FakeKdqPartitioner.log = self.log
        self.memo = stubs.Memo()
        FakeKdqPartitioner.memo = self.memo
        self.stack.enter_context(rebind(M, KDQTreePartitioner=FakeKdqPartitioner))
        self.crit_calls = []

    def _patch(self, d):
        calls = self.crit_calls

        memo = self.memo

        def crit(ref_counts, sample_size, _d=d):
            # a function of the reference tree (and of the seed schedule, shared by twins)
            r = memo.get("crit", (list(ref_counts), sample_size, _d._kdqtree.built), lambda: cur().real("crit"))
            calls.append((list(ref_counts), sample_size, r))
            return r

        d._get_critical_kld = crit
        return d


class KdqStreamDriver(KdqDriverBase):
    """cfg: window_size (int), dim"""

    name = "KdqTreeStreaming"

    def make(self):
        c = self.ctx
        if not hasattr(self, "params"):
            pers = c.real("persistence")
            c.assume(pers >= 0)
            self.params = dict(window_size=self.cfg["window_size"], persistence=pers, alpha=c.real("alpha"),
                               bootstrap_samples=2, count_ubound=1)
        return self._patch(self.M.KdqTreeStreaming(**self.params))

    def fresh_input(self, i):
        d = self.cfg.get("dim", 1)
        return obj_array([[self.ctx.real(f"x{i}_{j}") for j in range(d)]])


class KdqBatchDriver(KdqDriverBase):
    """cfg: rows (int), dim, set_ref (bool: call set_reference before the first update)"""

    name = "KdqTreeBatch"
    kind = "batch"
    total_attr = "total_batches"
    since_attr = "batches_since_reset"

    def make(self):
        c = self.ctx
        if not hasattr(self, "params"):
            self.params = dict(alpha=c.real("alpha"), bootstrap_samples=2, count_ubound=1)
        return self._patch(self.M.KdqTreeBatch(**self.params))

    def fresh_batch(self, tag):
        d = self.cfg.get("dim", 1)
        n = self.cfg.get("rows", 2)
        return obj_array([[self.ctx.real(f"{tag}_{r}_{j}") for j in range(d)] for r in range(n)])

    def fresh_input(self, i):
        return self.fresh_batch(f"b{i}")


class HDMDriver(Driver):
    """cfg: cls ("HDDDM"/"CDBD"), detect_batch, statistic, features, rows.
    The per-feature distances are fresh reals supplied through the public
    ``divergence=`` callable; the histogram builder and the bootstrap estimate of
    the first epsilon are replaced by recording stubs on the instance."""

    name = "HDM"
    kind = "batch"
    total_attr = "total_batches"
    since_attr = "batches_since_reset"

    def install(self):
        from menelaus.data_drift import histogram_density_method as M

        self.M = M
        self.div_calls = []
        self.eps0_calls = []
        self.memo = stubs.Memo()

    def make(self):
        from menelaus.data_drift import HDDDM, CDBD

        c = self.ctx
        calls = self.div_calls

        memo = self.memo

        def mk(name):
            def make():
                r = cur().real(name)
                cur().assume_unchecked(r >= 0)
                return r
            return make

        def divergence(ref_density, test_density):
            r = memo.get("dist", (ref_density, test_density), mk("dist"))
            calls.append((ref_density, test_density, r))
            return r

        if not hasattr(self, "params"):
            stat = self.cfg.get("statistic", "stdev")
            sig = c.real("significance") if stat == "stdev" else self.cfg.get("significance", 0.05)
            self.params = dict(detect_batch=self.cfg["detect_batch"], statistic=stat, significance=sig, subsets=3)
        cls = CDBD if self.cfg.get("cls") == "CDBD" else HDDDM
        d = cls(divergence=divergence, **self.params)
        e0 = self.eps0_calls

        def est(reference, num_subsets, mins, maxes):
            r = memo.get("eps0", (reference, num_subsets, mins, maxes), mk("eps0"))
            e0.append((len(reference), num_subsets, r))
            return r

        d._estimate_initial_epsilon = est
        return d

    def fresh_batch(self, tag, rows=None):
        f = 1 if self.cfg.get("cls") == "CDBD" else self.cfg.get("features", 1)
        n = rows or self.cfg.get("rows", 4)
        # concrete placeholder rows: every numeric effect of the data reaches the
        # decision logic through the (symbolic) distances
        self._nbatch = getattr(self, "_nbatch", 0) + 1
        rs = np.random.RandomState(1000 + self._nbatch)
        return np.round(rs.rand(n, f) * 8, 3)

    def fresh_input(self, i):
        return self.fresh_batch(f"b{i}")

    def restart_value(self):
        return 2 if self.cfg["detect_batch"] == 1 else 1


class FakeNNSP:
    log = None
    memo = None

    def __init__(self, k):
        self.k = k

    def build(self, s1, s2):
        FakeNNSP.log.append(("build", s1, s2))
        key = stubs.keyof((s1, s2, self.k))
        self.nnps_matrix = ("M", key)
        self.v1 = ("v1", key)
        self.v2 = ("v2", key)

    @staticmethod
    def compute_nnps_distance(M, v1, v2):
        r = FakeNNSP.memo.get("nnps", (M, v1, v2), lambda: cur().real("nnps"))
        FakeNNSP.log.append(("dist", M, v1, v2, r))
        return r


class NNDVIDriver(Driver):
    name = "NNDVI"
    kind = "batch"
    total_attr = "total_batches"
    since_attr = "batches_since_reset"

    def install(self):
        from menelaus.data_drift import nndvi as M

        self.M = M
        self.log = []
        FakeNNSP.log = self.log
        self.memo = stubs.Memo()
        FakeNNSP.memo = self.memo
        self.stack.enter_context(rebind(M, NNSpacePartitioner=FakeNNSP))
        self.thr_calls = []

    def make(self):
        c = self.ctx
        if not hasattr(self, "params"):
            self.params = dict(k_nn=2, sampling_times=self.cfg.get("sampling_times", 2), alpha=c.real("alpha"))
        d = self.M.NNDVI(**self.params)
        calls = self.thr_calls

        memo = self.memo

        def thr(M_nnps, v_ref, v_test, sampling_times, alpha):
            r = memo.get("theta", (M_nnps, v_ref, v_test, sampling_times, alpha), lambda: cur().real("theta"))
            calls.append((M_nnps, v_ref, v_test, sampling_times, alpha, r))
            return r

        d._compute_drift_threshold = thr
        return d

    def fresh_batch(self, tag):
        d = self.cfg.get("dim", 1)
        n = self.cfg.get("rows", 2)
        return obj_array([[self.ctx.real(f"{tag}_{r}_{j}") for j in range(d)] for r in range(n)])

    def fresh_input(self, i):
        return self.fresh_batch(f"b{i}")


class PCACDDriver(Driver):
    """cfg: window_size, metric, online_scaling, num_pcs, dim, sample_period.
    sklearn estimators are shape-correct stubs; per-component divergences are
    fresh reals; the internal PageHinkley monitor is the real class."""

    name = "PCACD"

    def install(self):
        from menelaus.data_drift import pca_cd as M

        self.M = M
        self.rec = []
        self.memo = stubs.Memo()
        npcs = self.cfg.get("num_pcs", 1)
        sym_proj = self.cfg.get("sym_proj", False)
        rec = self.rec

        class Scaler:
            def fit_transform(self, X):
                rec.append(("scaler.fit_transform", X))
                return np.asarray(X, dtype=object)

            def transform(self, X):
                rec.append(("scaler.transform", X))
                return np.asarray(X, dtype=object)

            def inverse_transform(self, X):
                rec.append(("scaler.inverse_transform", X))
                return np.asarray(X, dtype=object)

        class FakePCA:
            def __init__(self, ev):
                self.ev = ev
                self.components_ = np.zeros((npcs, 0))  # an array, as sklearn's (row count = retained components)

            def fit(self, X):
                rec.append(("pca.fit", X))

            def transform(self, X):
                rec.append(("pca.transform", X))
                X = np.asarray(X, dtype=object)
                if not sym_proj:
                    # lifecycle obligations: projections are irrelevant placeholders
                    return np.zeros((X.shape[0], npcs))
                return X[:, :npcs] if X.shape[1] >= npcs else np.zeros((X.shape[0], npcs))

        self.stack.enter_context(rebind(M, StandardScaler=Scaler, PCA=FakePCA))

    def make(self):
        if not hasattr(self, "params"):
            self.params = dict(window_size=self.cfg["window_size"], divergence_metric=self.cfg.get("metric", "intersection"),
                               online_scaling=self.cfg.get("online_scaling", True), delta=self.ctx.real("ph_delta"),
                               sample_period=self.cfg.get("sample_period", 0.5))
        d = self.M.PCACD(**self.params)
        rec = self.rec

        memo = self.memo

        def hist(sample, bins, bin_range):
            rec.append(("hist", sample, bins, bin_range))
            return {"hist_of": stubs.keyof((sample, bins, bin_range))}

        def kde(sample):
            rec.append(("kde", sample))
            return {"kde_of": stubs.keyof(sample)}

        def div(a, b):
            # a deterministic function of the two densities
            r = memo.get("score", (a, b), lambda: cur().real("score"))
            rec.append(("div", a, b, r))
            return r

        d._build_histograms = hist
        d._build_kde = kde
        d._intersection_divergence = div
        d._jensen_shannon_distance = div
        return d

    def fresh_input(self, i):
        dim = self.cfg.get("dim", 2)
        return obj_array([[self.ctx.real(f"x{i}_{j}") for j in range(dim)]])


DRIVERS.update({
    "KdqTreeStreaming": KdqStreamDriver,
    "KdqTreeBatch": KdqBatchDriver,
    "HDM": HDMDriver,
    "NNDVI": NNDVIDriver,
    "PCACD": PCACDDriver,
})
