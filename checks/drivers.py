"""Detector drivers: construct a real detector, install the contract stubs it
needs (module-global rebinding only) and feed it symbolic accepted inputs.

Used by the bounded-history (shape B) and relational (shape R) obligations of
several properties.
"""
from __future__ import annotations

import contextlib
import types

import numpy as np
import pandas as pd

from symx import core
from symx.core import Sym, SymBool, SymState, cur, is_sym, sym_max, sym_min
from symx.logic import b2i, between, iff, implies, ite, land, lnot, lor, state_is

from . import stubs
from .common import obj_array, rebind, scalar


class Driver:
    name = "?"
    kind = "stream"  # or "batch"
    total_attr = "total_samples"
    since_attr = "samples_since_reset"
    has_recs = False
    warns = False  # may report "warning"
    recs_span_epochs = False  # ADWIN: the retained window (and so recs) may reach before the last drift

    def __init__(self, ctx, **cfg):
        self.ctx = ctx
        self.cfg = cfg
        self.stack = contextlib.ExitStack()
        self.inputs = []

    # -- lifecycle
    def __enter__(self):
        self.stack.__enter__()
        self.install()
        self.det = self.make()
        return self

    def __exit__(self, *a):
        return self.stack.__exit__(*a)

    def install(self):
        pass

    def make(self):
        raise NotImplementedError

    def twin(self):
        """A newly constructed detector with the same parameters."""
        return self.make()

    # -- feeding
    def fresh_input(self, i):
        raise NotImplementedError

    def apply(self, det, x):
        det.update(x)

    def step(self, i):
        x = self.fresh_input(i)
        self.inputs.append(x)
        self.apply(self.det, x)
        return x

    # -- contract table
    def restart_value(self):
        return 1

    def counters(self, det=None):
        det = det or self.det
        return getattr(det, self.total_attr), getattr(det, self.since_attr)

    def warm(self, det, since_after, total_after):
        """Condition that must hold whenever the state after an update is not None."""
        return True


# --------------------------------------------------------------------------
# change detection


class CusumDriver(Driver):
    """cfg: burn_in (int), direction, target_given (bool), havoc_stats (bool)"""

    name = "CUSUM"

    def install(self):
        from menelaus.change_detection import cusum as M

        self.M = M
        names = {}
        if self.cfg.get("ite_max"):
            names["max"] = sym_max  # non-forking max (ite); default: builtin max forks
        if self.cfg.get("havoc_stats"):
            # lifecycle obligations only: every statistic is an arbitrary real
            names["np"] = stubs.np_mean_std_havoc()
            names["max"] = lambda *a: cur().real("havoc_max")
        self.stack.enter_context(rebind(M, **names))

    def make(self):
        c = self.ctx
        if not hasattr(self, "params"):
            tg = self.cfg.get("target_given")
            sd = c.real("sd_hat0") if tg else None
            if tg:
                c.assume(sd > 0)
            self.params = dict(
                target=c.real("target0") if tg else None,
                sd_hat=sd,
                burn_in=self.cfg["burn_in"],
                delta=c.real("delta"),
                threshold=c.real("threshold"),
                direction=self.cfg.get("direction"),
            )
        return self.M.CUSUM(**self.params)

    def fresh_input(self, i):
        return self.ctx.real(f"x{i}")

    def warm(self, det, since_after, total_after):
        return since_after > self.cfg["burn_in"]


class PHDriver(Driver):
    name = "PageHinkley"

    def install(self):
        from menelaus.change_detection import page_hinkley as M

        self.M = M

    def make(self):
        c = self.ctx
        if not hasattr(self, "params"):
            self.params = dict(delta=c.real("delta"), threshold=c.real("threshold"),
                               burn_in=self.cfg["burn_in"], direction=self.cfg.get("direction", "positive"))
        return self.M.PageHinkley(**self.params)

    def fresh_input(self, i):
        return self.ctx.real(f"x{i}")

    def warm(self, det, since_after, total_after):
        return since_after > self.cfg["burn_in"]


class AdwinDriver(Driver):
    """cfg: max_buckets, new_sample_thresh, window_size_thresh, subwindow_size_thresh,
    havoc_cut (bool: _check_epsilon answers are free booleans, recorded)"""

    name = "ADWIN"
    has_recs = True
    recs_span_epochs = True

    def install(self):
        from menelaus.change_detection import adwin as M

        self.M = M
        self.stack.enter_context(rebind(M, zeros=stubs.object_zeros))
        self.cut_calls = []

    def _params(self):
        c = self.ctx
        if not hasattr(self, "params"):
            self.params = dict(
                delta=self.cfg.get("delta", 0.002),
                max_buckets=self.cfg.get("max_buckets", 5),
                new_sample_thresh=self.cfg.get("new_sample_thresh", 1),
                window_size_thresh=self.cfg.get("window_size_thresh", 1),
                subwindow_size_thresh=self.cfg.get("subwindow_size_thresh", 1),
                conservative_bound=self.cfg.get("conservative_bound", False),
            )
        return self.params

    def _cls(self):
        return self.M.ADWIN

    def make(self):
        d = self._cls()(**self._params())
        if self.cfg.get("havoc_cut", True):
            calls = self.cut_calls

            def check_epsilon(n0, t0, n1, t1, _d=d):
                b = cur().bool("cut")
                calls.append((n0, t0, n1, t1, b, _d._window_size, _d.total_samples))
                return b

            d._check_epsilon = check_epsilon
        return d

    def fresh_input(self, i):
        return self.ctx.real(f"x{i}")

    def warm(self, det, since_after, total_after):
        p = self._params()
        return total_after % p["new_sample_thresh"] == 0


class AdwinAccDriver(AdwinDriver):
    name = "ADWINAccuracy"

    def _cls(self):
        from menelaus.concept_drift import adwin_accuracy as A

        return A.ADWINAccuracy

    def fresh_input(self, i):
        return (self.ctx.int(f"yt{i}"), self.ctx.int(f"yp{i}"))

    def apply(self, det, x):
        det.update(x[0], x[1])


# --------------------------------------------------------------------------
# concept drift (label streams)


class LabelDriver(Driver):
    has_recs = True
    warns = True

    def fresh_input(self, i):
        return (self.ctx.int(f"yt{i}"), self.ctx.int(f"yp{i}"))

    def apply(self, det, x):
        det.update(x[0], x[1])


class DDMDriver(LabelDriver):
    name = "DDM"

    def make(self):
        from menelaus.concept_drift import DDM

        c = self.ctx
        if not hasattr(self, "params"):
            self.params = dict(n_threshold=self.cfg["n_threshold"], warning_scale=c.real("warning_scale"),
                               drift_scale=c.real("drift_scale"))
        return DDM(**self.params)

    def warm(self, det, since_after, total_after):
        return since_after >= self.cfg["n_threshold"]


class EDDMDriver(LabelDriver):
    name = "EDDM"

    def make(self):
        from menelaus.concept_drift import EDDM

        c = self.ctx
        if not hasattr(self, "params"):
            self.params = dict(n_threshold=self.cfg["n_threshold"], warning_thresh=c.real("warning_thresh"),
                               drift_thresh=c.real("drift_thresh"))
        return EDDM(**self.params)

    def warm(self, det, since_after, total_after):
        return det._n_errors >= self.cfg["n_threshold"]


class STEPDDriver(LabelDriver):
    name = "STEPD"

    def install(self):
        from menelaus.concept_drift import stepd as M

        self.M = M
        self.stack.enter_context(rebind(M, scipy=stubs.fake_scipy_norm(uf=self.cfg.get("phi_uf", False))))

    def make(self):
        c = self.ctx
        if not hasattr(self, "params"):
            self.params = dict(window_size=self.cfg["window_size"], alpha_warning=c.real("alpha_warning"),
                               alpha_drift=c.real("alpha_drift"))
        return self.M.STEPD(**self.params)

    def warm(self, det, since_after, total_after):
        return since_after >= 2 * self.cfg["window_size"]


class LFRDriver(LabelDriver):
    """cfg: burn_in, subsample, rates_tracked, round_val"""

    name = "LinearFourRates"

    def install(self):
        self.sim_calls = []

    def make(self):
        from menelaus.concept_drift import LinearFourRates

        c = self.ctx
        if not hasattr(self, "params"):
            self.params = dict(time_decay_factor=c.real("eta"), warning_level=c.real("warning_level"),
                               detect_level=c.real("detect_level"), burn_in=self.cfg["burn_in"], num_mc=2,
                               subsample=self.cfg.get("subsample", 1),
                               rates_tracked=list(self.cfg.get("rates_tracked", ["tpr", "tnr", "ppv", "npv"])),
                               round_val=self.cfg.get("round_val", 4))
            c.assume(land(self.params["time_decay_factor"] > 0, self.params["time_decay_factor"] < 1))
        d = LinearFourRates(**self.params)
        calls = self.sim_calls

        def sim_bounds(est_rate, denom, _d=d):
            cc = cur()
            b = {k: cc.real(k) for k in ("lb_warn", "ub_warn", "lb_detect", "ub_detect")}
            calls.append((est_rate, denom, b))
            return b

        d._sim_bounds = sim_bounds
        return d

    def fresh_input(self, i):
        c = self.ctx
        yt, yp = c.int(f"yt{i}"), c.int(f"yp{i}")
        c.assume(land(between(0, yt, 1), between(0, yp, 1)))
        return (yt, yp)

    def warm(self, det, since_after, total_after):
        return land(since_after > self.cfg["burn_in"], since_after % self.cfg.get("subsample", 1) == 0)


DRIVERS = {
    "CUSUM": CusumDriver,
    "PageHinkley": PHDriver,
    "ADWIN": AdwinDriver,
    "ADWINAccuracy": AdwinAccDriver,
    "DDM": DDMDriver,
    "EDDM": EDDMDriver,
    "STEPD": STEPDDriver,
    "LinearFourRates": LFRDriver,
}
