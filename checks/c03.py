"""C03 - ADWIN keeps exact statistics of its adaptive window and cuts it by its rule.

B (structural): inputs are symbolic reals; ``_check_epsilon`` is replaced on
the instance by a recorder returning a free boolean, so *every* cut pattern
(hence every reachable bucket layout within N) is explored.  After every update
z3 proves mean/variance identities over exactly the retained inputs, and the
recorded cut queries are compared with an independent sizes-only model of the
exponential histogram (which boundaries are admissible, in which order, what a
positive answer does).
K: the real ``_check_epsilon`` on symbolic arguments equals the documented
epsilon-cut (log / sqrt uninterpreted on both sides).
R: ADWINAccuracy == ADWIN on the indicator stream, with the constructor
arguments it was given.
"""
import numpy as np
import z3

from symx.core import Sym, SymBool, cur
from symx.logic import b2i, between, iff, implies, ite, land, lnot, lor, state_is
from symx.run import Job

from . import stubs
from .common import rebind, values_equal
from .drivers import DRIVERS

PROPERTY = "C03"
ENCODED = [
    "menelaus.change_detection.adwin:ADWIN.update", "menelaus.change_detection.adwin:ADWIN._add_sample",
    "menelaus.change_detection.adwin:ADWIN._compress_buckets", "menelaus.change_detection.adwin:ADWIN._shrink_window",
    "menelaus.change_detection.adwin:ADWIN._remove_last", "menelaus.change_detection.adwin:ADWIN._check_epsilon",
    "menelaus.change_detection.adwin:ADWIN.mean", "menelaus.change_detection.adwin:ADWIN.variance",
    "menelaus.change_detection.adwin:_BucketRowList.append_tail", "menelaus.change_detection.adwin:_BucketRow.add_bucket",
    "menelaus.change_detection.adwin:_BucketRow.remove_buckets",
    "menelaus.concept_drift.adwin_accuracy:ADWINAccuracy.__init__", "menelaus.concept_drift.adwin_accuracy:ADWINAccuracy.update",
]
BOUNDS = {
    "quick": "epsilon-cut lemma: symbolic sub-window sizes with log as an uninterpreted monotone function and its arguments as obligations, plus three concrete size / delta configurations with symbolic totals and variance; structural: N<=8 symbolic real inputs, max_buckets in {1,2}, check period in {1,2}, min window in {0,2}, "
             "min sub-window in {1,2}; epsilon-cut lemma: all arguments symbolic (unbounded), both bounds; ADWINAccuracy: N<=9 "
             "label pairs (all outcome sequences), symbolic constructor arguments",
    "thorough": "structural N=11 in general, 13 (12 for max_buckets=3) with test period 4, 10 / 8 for max_buckets 2 / 3 with period 1 and minimum sub-window 1, 13 for the max_buckets=1 long job; max_buckets<=3, period in {1,2,4}; ADWINAccuracy N<=11",
}
OUTSIDE = ("streams longer than N; IEEE rounding of the incremental variance (exact reals); the natural logarithm and square "
           "root in the epsilon-cut are uninterpreted (identical on both sides)")
ASSUMPTIONS = [
    "structural runs: _check_epsilon answers are arbitrary booleans (a superset of what any numeric stream can produce); the "
    "real method is verified separately by the epsilon-cut lemma",
    "adwin.zeros rebound to an object-dtype zeros so that bucket arrays can hold proxies",
    "epsilon-cut lemma: n0,n1 >= subwindow_size_thresh >= 1, window size >= 2, 0 < delta <= 1, variance >= 0; spec literals are "
    "the IEEE doubles the source denotes (2/3)",
]
TRUSTED = ["z3 (nonlinear real arithmetic)", "numpy power/log/sqrt on concrete arguments in the ADWINAccuracy runs"]


class HistModel:
    """Sizes-only reference model of the exponential histogram: rows[i] holds
    buckets of 2**i consecutive inputs (as (first, last) index pairs), oldest first."""

    def __init__(self, M):
        self.M = M
        self.rows = [[]]

    def add(self, idx):
        self.rows[0].append((idx, idx))
        i = 0
        while i < len(self.rows) and len(self.rows[i]) == self.M + 1:
            a, b = self.rows[i][0], self.rows[i][1]
            self.rows[i] = self.rows[i][2:]
            if i + 1 == len(self.rows):
                self.rows.append([])
            self.rows[i + 1].append((a[0], b[1]))
            i += 1

    def buckets(self):
        """oldest -> newest"""
        out = []
        for row in reversed(self.rows):
            out.extend(row)
        return out

    def drop_oldest(self):
        # rows in the middle can be empty (max_buckets=1: a merge empties a row): the oldest bucket is the first
        # bucket of the highest non-empty row
        while len(self.rows) > 1 and not self.rows[-1]:
            self.rows.pop()
        b = self.rows[-1].pop(0)
        while len(self.rows) > 1 and not self.rows[-1]:
            self.rows.pop()
        return b

    def size(self):
        return sum(b[1] - b[0] + 1 for b in self.buckets())


def _sum(xs, lo, hi):
    t = 0
    for i in range(lo, hi + 1):
        t = t + xs[i]
    return t


def _documented_cut(p, n0, t0, n1, t1, retained):
    """the cut test of the statement on the *current* window (floating point): None when the two sides are too close to call"""
    import math

    W = len(retained)
    m = sum(retained) / W
    variance = sum((v - m) ** 2 for v in retained) / W
    thr = p["subwindow_size_thresh"]
    inv_m = 1 / (n0 - thr + 1) + 1 / (n1 - thr + 1)
    if not p["conservative_bound"]:
        dp = math.log(2 * math.log(W) / p["delta"])
        eps = math.sqrt(2 * inv_m * variance * dp) + (2 / 3) * inv_m * dp
    else:
        dp = math.log(4 * math.log(W) / p["delta"])
        eps = math.sqrt(0.5 * inv_m * dp)
    lhs = abs(t0 / n0 - t1 / n1)
    if abs(lhs - eps) < 1e-9:
        return None
    return lhs > eps


def body_structural(ctx, N, cfg, levels=None):
    """levels=None: symbolic real inputs, free cut answers.  levels=(a, b): every input is a or b (one solver-driven bit
    per sample, so all statistics are the real doubles) and the *real* _check_epsilon decides; each of its answers must be
    the documented test evaluated on the window retained at that moment (seed C03-8 evaluated later splits of the same
    update with the variance and length of the window before the first drop)."""
    with DRIVERS["ADWIN"](ctx, **cfg) as drv:
        d = drv.det
        p = drv._params()
        model = HistModel(p["max_buckets"])
        xs = []
        # two-level runs compare doubles produced by different summation orders: tolerance instead of exact equality
        eqf = (lambda u, v: ctx.approx(u, v, 1e-7)) if levels is not None else ctx.eq
        if levels is not None:
            real = type(d)._check_epsilon

            def wrapped(n0, t0, n1, t1, *extra, **kw):
                ans = bool(real(d, n0, t0, n1, t1, *extra, **kw))
                drv.cut_calls.append((n0, t0, n1, t1, ans, d._window_size, d.total_samples))
                return ans

            d._check_epsilon = wrapped
            drv.fresh_input = lambda i: float(levels[1]) if bool(ctx.bool(f"high{i}")) else float(levels[0])
        for i in range(N):
            W_before = d._window_size
            ncalls = len(drv.cut_calls)
            x = drv.step(i)
            xs.append(x)
            model.add(i)
            calls = drv.cut_calls[ncalls:]
            total = i + 1
            # ---- expected scan, from the sizes-only model
            scheduled = total % p["new_sample_thresh"] == 0 and (W_before + 1) > p["window_size_thresh"]
            k = 0
            any_cut = False
            if scheduled:
                restart = True
                while restart:
                    restart = False
                    bs = model.buckets()
                    W = model.size()
                    n0 = 0
                    for j, b in enumerate(bs[:-1]):  # the boundary after the youngest bucket is not a split
                        n0 += b[1] - b[0] + 1
                        n1 = W - n0
                        if n0 >= p["subwindow_size_thresh"] and n1 >= p["subwindow_size_thresh"]:
                            ctx.prove(k < len(calls), "cut-query-missing")
                            if k >= len(calls):
                                return
                            c = calls[k]
                            k += 1
                            first = bs[0][0]
                            ctx.prove(land(c[0] == n0, c[2] == n1, c[5] == W), "cut-query-sizes")
                            ctx.prove(land(eqf(c[1], _sum(xs, first, first + n0 - 1)),
                                           eqf(c[3], _sum(xs, first + n0, i))), "cut-query-sums")
                            if levels is not None:
                                want = _documented_cut(p, n0, c[1], n1, c[3], xs[first:i + 1])
                                ctx.prove(want is None or bool(c[4]) == want, "cut-answer-is-the-documented-test-on-the-current-window")
                                if bool(c[4]) and any_cut:
                                    ctx.witness("second-cut-in-one-update")
                            if bool(c[4]):
                                any_cut = True
                                model.drop_oldest()
                                restart = True
                                ctx.witness("cut")
                                break
            ctx.prove(k == len(calls), "no-unscheduled-or-extra-cut-query")
            while drv.cut_extra:
                with_extra, from_window = drv.cut_extra.pop(0)
                ctx.prove(iff(with_extra, from_window), "cut-decision-is-taken-from-the-current-window")
            # ---- state after the update
            W = model.size()
            first = i - W + 1
            ctx.prove(d._window_size == W, "window-size")
            ctx.prove(iff(state_is(d.drift_state, "drift"), any_cut), "drift-iff-some-cut")
            ctx.prove(implies(d._window_size < W_before + 1, state_is(d.drift_state, "drift")), "shrinks-only-on-drift")
            if W > 0:
                ctx.prove(eqf(d.mean() * W, _sum(xs, first, i)), "mean-of-retained-window")
                m = _sum(xs, first, i) / W
                sq = 0
                for j in range(first, i + 1):
                    sq = sq + (xs[j] - m) * (xs[j] - m)
                ctx.prove(eqf(d.variance() * W, sq), "variance-of-retained-window")
            if any_cut:
                ctx.prove(list(d.retraining_recs) == [total - W, total - 1], "recs-retained-window")
            else:
                ctx.prove(list(d.retraining_recs) == [None, None], "recs-none-without-drift")
            # bucket layout equals the model's (sizes)
            sizes = []
            row, pos = d._bucket_row_list.tail, d._bucket_row_list.size - 1
            while row is not None:
                sizes.extend([2 ** pos] * row.bucket_count)
                row, pos = row.prev_bucket, pos - 1
            ctx.prove(sizes == [b[1] - b[0] + 1 for b in model.buckets()], "bucket-layout")


# --------------------------------------------------------------------------
# K: epsilon-cut


def body_epsilon_cut(ctx, conservative, concrete=None):
    from menelaus.change_detection import adwin as M

    if concrete:
        # sub-window sizes, threshold and delta concrete: the logarithms are then ordinary floating-point constants (no
        # uninterpreted function), so that a deviation anywhere in the formula has a counterexample in the totals and the
        # variance that replays
        n0, n1, thr, delta = concrete
    else:
        thr = ctx.int("subwindow_size_thresh")
        n0, n1 = ctx.int("n0"), ctx.int("n1")
        delta = ctx.real("delta")
    t0, t1 = ctx.real("total0"), ctx.real("total1")
    var_sum = ctx.real("curr_variance")
    ctx.assume(land(thr >= 1, n0 >= thr, n1 >= thr, delta > 0, delta <= 1, var_sum >= 0))
    W = n0 + n1
    with rebind(M, zeros=stubs.object_zeros):
        d = M.ADWIN(delta=delta, subwindow_size_thresh=thr, conservative_bound=conservative)
    d._window_size = W
    d._curr_variance = var_sum
    d._curr_total = t0 + t1
    log_args = []

    def rec_log(v):
        log_args.append(v)
        return np.log(v)

    with rebind(M, log=rec_log):
        got = d._check_epsilon(n0, t0, n1, t1)
    # log is an uninterpreted (monotone) function in the solver: a wrong *argument* is only a replayable counterexample
    # when it is an obligation of its own
    ctx.prove(len(log_args) == 2, "confidence-term-is-log-of-log")
    if len(log_args) == 2:
        inner = np.log(n0 + n1)
        ctx.prove(land(ctx.eq(log_args[0], n0 + n1), ctx.eq(log_args[1], (4 if conservative else 2) * inner / delta)),
                  "confidence-term-argument")
    # documented cut (Bifet & Gavalda 2007, with delta' = ln(2 ln W / delta) as noted in the source)
    log = lambda v: np.log(v)  # noqa: E731  (dispatches to the same uninterpreted log on proxies)
    inv_m = 1 / (n0 - thr + 1) + 1 / (n1 - thr + 1)
    variance = var_sum / W
    if not conservative:
        dp = log(2 * log(W) / delta)
        eps = np.sqrt(2 * inv_m * variance * dp) + (2 / 3) * inv_m * dp
    else:
        dp = log(4 * log(W) / delta)
        eps = np.sqrt(0.5 * inv_m * dp)
    diff = t0 / n0 - t1 / n1
    want = abs(diff) > eps
    ctx.prove(iff(got, want), "epsilon-cut-formula")
    ctx.witness("lemma")


# --------------------------------------------------------------------------
# R: ADWINAccuracy


def _layout(d):
    out = []
    row = d._bucket_row_list.head
    while row is not None:
        out.append((row.bucket_count, list(row.bucket_totals[: row.bucket_count]),
                    list(row.bucket_variances[: row.bucket_count])))
        row = row.next_bucket
    return out


def body_accuracy_ctor(ctx):
    from menelaus.concept_drift import ADWINAccuracy

    delta = ctx.real("delta")
    ctx.assume(land(delta >= 0, delta <= 1))
    mb, nst, wst, sst = ctx.int("max_buckets"), ctx.int("new_sample_thresh"), ctx.int("window_size_thresh"), ctx.int("subwindow_size_thresh")
    ctx.assume(land(mb >= 1, mb <= 3))
    cons = ctx.bool("conservative_bound")
    d = ADWINAccuracy(delta=delta, max_buckets=mb, new_sample_thresh=nst, window_size_thresh=wst,
                      subwindow_size_thresh=sst, conservative_bound=cons)
    ctx.prove(land(ctx.eq(d.delta, delta), ctx.eq(d.max_buckets, mb), ctx.eq(d.new_sample_thresh, nst),
                   ctx.eq(d.window_size_thresh, wst), ctx.eq(d.subwindow_size_thresh, sst)), "constructor-arguments-forwarded")
    ctx.prove(d.conservative_bound is cons, "constructor-arguments-forwarded")
    ctx.witness("ctor")


def body_accuracy_twin(ctx, N, cfg, labels):
    from menelaus.change_detection import ADWIN
    from menelaus.concept_drift import ADWINAccuracy

    a = ADWINAccuracy(**cfg)
    t = ADWIN(**cfg)
    for i in range(N):
        if labels == "int":
            yt, yp = ctx.int(f"yt{i}"), ctx.int(f"yp{i}")
        else:
            yt, yp = ctx.label(f"yt{i}"), ctx.label(f"yp{i}")
        ind = 1 if (yt == yp) else 0  # fork: concrete indicator per path
        a.update(yt, yp)
        t.update(ind)
        ok = (a.drift_state == t.drift_state and list(a.retraining_recs) == list(t.retraining_recs)
              and a.total_samples == t.total_samples and a.samples_since_reset == t.samples_since_reset
              and a._window_size == t._window_size and a._curr_total == t._curr_total
              and a._curr_variance == t._curr_variance and _layout(a) == _layout(t)
              and a.mean() == t.mean() and a.variance() == t.variance())
        ctx.prove(ok, "adwinaccuracy-equals-adwin-on-indicators")
        if a.drift_state == "drift":
            ctx.witness("drift")


def jobs(tier):
    q = tier == "quick"
    out = []
    for mb in (1, 2) if q else (1, 2, 3):
        for nst in (1, 2) if q else (1, 2, 4):
            for wst in (0, 2):
                for sst in (1, 2):
                    if q and sst == 2 and (wst == 2 or nst == 2):
                        continue
                    out.append(Job(f"struct-mb{mb}-nst{nst}-wst{wst}-sst{sst}", "checks.c03:body_structural",
                                   {"N": 8 if q else ((13 if mb < 3 else 12) if nst == 4 else (10 if mb == 2 else 8) if (mb >= 2 and nst == 1 and sst == 1) else 11),
                                    "cfg": {"max_buckets": mb, "new_sample_thresh": nst, "window_size_thresh": wst,
                                            "subwindow_size_thresh": sst}},
                                   expect=("cut",), opts={"validate": 1}))
    # max_buckets=1 empties whole rows when it merges: needs >= 11 samples to drop a bucket *past* an empty row
    # real cut decisions on two-level streams (all 2^N level sequences): delta = 1 and a level gap of 10 make cuts, and
    # several drops in one update, reachable within N samples
    for mb, cons, n in ((1, False, 9 if q else 11), (2, False, 10 if q else 12), (2, True, 9 if q else 11)):
        out.append(Job(f"real-cuts-mb{mb}-conservative{int(cons)}", "checks.c03:body_structural",
                       {"N": n, "cfg": {"max_buckets": mb, "new_sample_thresh": 1, "window_size_thresh": 1, "subwindow_size_thresh": 1,
                                        "delta": 1.0, "conservative_bound": cons, "havoc_cut": False},
                        "levels": [0, 10]}, expect=("cut", "second-cut-in-one-update"), opts={"validate": 1}))
    out.append(Job("struct-mb1-long", "checks.c03:body_structural",
                   {"N": 11 if q else 13, "cfg": {"max_buckets": 1, "new_sample_thresh": 1, "window_size_thresh": 0,
                                                  "subwindow_size_thresh": 1}},
                   expect=("cut",), opts={"validate": 1}))
    for cons in (False, True):
        out.append(Job(f"epsilon-cut-conservative{int(cons)}", "checks.c03:body_epsilon_cut", {"conservative": cons},
                       expect=("lemma",), opts={"validate": 0}))
        for conc in ((3, 2, 1, 0.05), (5, 7, 2, 0.002), (4, 4, 3, 0.5)):
            out.append(Job(f"epsilon-cut-conservative{int(cons)}-n{conc[0]}.{conc[1]}-t{conc[2]}", "checks.c03:body_epsilon_cut",
                           {"conservative": cons, "concrete": list(conc)}, expect=("lemma",), opts={"validate": 1}))
    out.append(Job("accuracy-ctor", "checks.c03:body_accuracy_ctor", {}, expect=("ctor",)))
    for labels in ("int", "label"):
        out.append(Job(f"accuracy-twin-{labels}", "checks.c03:body_accuracy_twin",
                       {"N": 9 if q else 11, "labels": labels,
                        "cfg": {"delta": 1.0, "max_buckets": 2, "new_sample_thresh": 1, "window_size_thresh": 2,
                                "subwindow_size_thresh": 1, "conservative_bound": True}},
                       expect=("drift",), opts={"validate": 0}))
    return out
