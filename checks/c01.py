"""C01 - drift state, counters and warm-up follow the lifecycle contract.

Scalar-state detectors (DDM, EDDM, STEPD, PageHinkley): one inductive step
from an arbitrary state satisfying a representation invariant, all integer
parameters unbounded symbolic.  Heap-state detectors: bounded histories from
the public constructor with the numeric decisions left free.
"""
from itertools import product

import numpy as np

from symx.core import Sym, SymBool, SymState
from symx.logic import b2i, between, iff, implies, ite, land, lnot, lor, state_is
from symx.run import Job

from .common import in_domain, rebind, scalar, Recorder
from . import stubs

PROPERTY = "C01"
ENCODED = [
    "menelaus.detector:StreamingDetector.update", "menelaus.detector:StreamingDetector.reset",
    "menelaus.detector:StreamingDetector._validate_input",
    "menelaus.detector:BatchDetector.update", "menelaus.detector:BatchDetector.reset",
    "menelaus.concept_drift.ddm:DDM.update", "menelaus.concept_drift.ddm:DDM.reset",
    "menelaus.concept_drift.eddm:EDDM.update", "menelaus.concept_drift.eddm:EDDM.reset",
    "menelaus.concept_drift.stepd:STEPD.update", "menelaus.concept_drift.stepd:STEPD.reset",
    "menelaus.change_detection.page_hinkley:PageHinkley.update", "menelaus.change_detection.page_hinkley:PageHinkley.reset",
    "menelaus.change_detection.cusum:CUSUM.update", "menelaus.change_detection.cusum:CUSUM.reset",
    "menelaus.change_detection.adwin:ADWIN.update", "menelaus.change_detection.adwin:ADWIN._shrink_window",
    "menelaus.concept_drift.adwin_accuracy:ADWINAccuracy.update",
    "menelaus.concept_drift.lfr:LinearFourRates.update",
    "menelaus.concept_drift.md3:MD3.update", "menelaus.concept_drift.md3:MD3.give_oracle_label",
    "menelaus.data_drift.kdq_tree:KdqTreeDetector._evaluate_kdqtree",
    "menelaus.data_drift.kdq_tree:KdqTreeStreaming.update", "menelaus.data_drift.kdq_tree:KdqTreeBatch.update",
    "menelaus.data_drift.histogram_density_method:HistogramDensityMethod.update",
    "menelaus.data_drift.histogram_density_method:HistogramDensityMethod.reset",
    "menelaus.data_drift.nndvi:NNDVI.update",
    "menelaus.data_drift.pca_cd:PCACD.update",
    "menelaus.detector:DriftDetector.update", "menelaus.detector:DriftDetector.reset",
]
BOUNDS = {
    "quick": "S (one inductive step from an arbitrary invariant state, history length unbounded): DDM, EDDM, PageHinkley with "
             "unbounded symbolic n_threshold / burn_in / thresholds, STEPD with window contents of length L<=3 and unbounded "
             "symbolic window_size. B (histories from the constructor, numeric decisions free): CUSUM burn_in in {2,3}, "
             "N<=2*burn_in+3; ADWIN/ADWINAccuracy max_buckets in {1,2}, check period in {1,2}, min window in {0,2}, N<=9 (7); "
             "LFR burn_in in {0,1,2} x subsample in {1,2}, N<=3; KdqTreeStreaming window in {1,2}, N<=3w+4; KdqTreeBatch N<=4; "
             "HDDDM/CDBD detect_batch in {1,2,3} x {stdev,tstat}, N<=4(5); NNDVI N<=4; PCACD window 2, both metrics, scaling "
             "on/off, N<=4w+2",
    "thorough": "as quick with STEPD L<=5, CUSUM N<=2*burn_in+4, ADWIN max_buckets<=3, period in {1,2,4}, N=10 (13 with period 4, 8 for max_buckets=3 with period 1), LFR N<=4, "
                "kdq window<=3, HDM N<=6(7), PCACD window in {2,3}",
}
OUTSIDE = ("histories longer than N for the B-shaped detectors; IEEE rounding / NaN for the S-shaped steps (exact real "
           "arithmetic); MD3 is covered through the C19 protocol harness (call sequences of length <=4)")
ASSUMPTIONS = [
    "S steps: pre-state satisfies the stated representation invariant (0<=since<=total, recs inside the current epoch, "
    "alarms only after warm-up); the invariant is itself proved inductive on every path",
    "CUSUM histories: np.mean/np.std and max() havoc'd to arbitrary reals (lifecycle does not depend on them)",
    "ADWIN: _check_epsilon answers are arbitrary booleans (every cut pattern explored); bucket arrays object-dtype",
    "LFR: _sim_bounds returns arbitrary bounds (Monte-Carlo not simulated)",
    "kdq: KDQTreePartitioner replaced by a recording stub, divergence and critical value arbitrary reals",
    "HDM: per-feature distances arbitrary non-negative reals via the public divergence= hook; bootstrap epsilon0 arbitrary; "
    "histogram builder stubbed; batches are concrete placeholders",
    "NNDVI: partitioner, distance and threshold arbitrary; PCACD: sklearn scaler/PCA shape stubs, divergences arbitrary, "
    "internal PageHinkley real",
    "STEPD: scipy.stats.norm.cdf replaced by an arbitrary value in [0,1]",
    "division by a symbolic value assumes a non-zero divisor, sqrt assumes a non-negative argument (counted in evidence)",
]
TRUSTED = ["z3 (nonlinear real arithmetic, linear integer arithmetic)", "CPython + numpy object-array dispatch onto proxies"]


# --------------------------------------------------------------------------
# generic pieces


def _recs_inv(ctx, recs, total, since, st):
    """Invariant on retraining_recs = [first warning index, drift index]."""
    r0, r1 = recs
    lo, hi = total - since, total - 1
    conds = []
    if r0 is not None:
        conds.append(between(lo, r0, hi))
    if r1 is not None:
        conds.append(r1 == hi)
        conds.append(state_is(st, "drift"))
        if r0 is None:
            return False
        conds.append(r0 <= r1)
    else:
        conds.append(lnot(state_is(st, "drift")))
    return land(*conds)


def _check_counters(ctx, d, total, since, pre_state, restart=1, total_attr="total_samples", since_attr="samples_since_reset"):
    ctx.prove(ctx.eq(getattr(d, total_attr), total + 1), "total-counter-plus-one")
    exp = ite(state_is(pre_state, "drift"), restart, since + 1)
    ctx.prove(ctx.eq(getattr(d, since_attr), exp), "since-reset-counter")
    ctx.prove(in_domain(d.drift_state), "state-domain")


def _check_recs_on_drift(ctx, d, total, pre_state):
    st = d.drift_state
    recs = list(d.retraining_recs)
    if state_is(st, "drift") is True or (isinstance(st, SymState)):
        pass
    isd = state_is(st, "drift")
    r0, r1 = recs
    if isd is True:
        ctx.prove(r0 is not None and r1 is not None, "recs-set-on-drift")
        if r0 is not None and r1 is not None:
            ctx.prove(land(r0 <= r1, ctx.eq(r1, total)), "recs-range-on-drift")  # total == total' - 1
    # after a drift the new epoch starts at index `total`: nothing older survives
    wasd = state_is(pre_state, "drift")
    for r in recs:
        if r is not None:
            ctx.prove(implies(wasd, r >= total), "recs-cleared-after-drift")


def _witness_state(ctx, st):
    if isinstance(st, SymState):
        ctx.witness("state-unchanged")
    else:
        ctx.witness(f"state-{st}")


# --------------------------------------------------------------------------
# DDM / EDDM: one step from an arbitrary state


def body_ddm_step(ctx, r0, r1):
    from menelaus.concept_drift import DDM

    nth = ctx.int("n_threshold")
    d = DDM(n_threshold=nth, warning_scale=ctx.real("warning_scale"), drift_scale=ctx.real("drift_scale"))
    total, since, st = ctx.int("total"), ctx.int("since"), ctx.state("pre_state")
    ctx.assume(land(since >= 0, since <= total))
    recs = [ctx.int("rec0") if r0 else None, ctx.int("rec1") if r1 else None]
    ctx.assume(_recs_inv(ctx, recs, total, since, st))
    ctx.assume(implies(lnot(state_is(st, None)), since >= nth))  # Inv: alarms only after warm-up
    d._total_samples, d._samples_since_reset, d._drift_state = total, since, st
    d._retraining_recs = list(recs)
    p, s = ctx.real("p"), ctx.real("s")
    ctx.assume(land(p >= 0, p <= 1, s >= 0))
    d._error_rate, d._error_std = p, s
    d._error_rate_min, d._error_std_min = ctx.real("p_min"), ctx.real("s_min")
    d.update(ctx.int("y_true"), ctx.int("y_pred"))
    _check_counters(ctx, d, total, since, st)
    post = d.drift_state
    ctx.prove(implies(lnot(state_is(post, None)), d.samples_since_reset >= nth), "no-alarm-before-n_threshold")
    _check_recs_on_drift(ctx, d, total, st)
    # invariant is inductive
    ctx.prove(_recs_inv(ctx, list(d.retraining_recs), d.total_samples, d.samples_since_reset, post), "inv-recs")
    _witness_state(ctx, post)
    if state_is(st, "drift") is not False:
        ctx.witness("after-drift")


def body_eddm_step(ctx, r0, r1):
    from menelaus.concept_drift import EDDM

    nth = ctx.int("n_threshold")
    d = EDDM(n_threshold=nth, warning_thresh=ctx.real("warning_thresh"), drift_thresh=ctx.real("drift_thresh"))
    total, since, st = ctx.int("total"), ctx.int("since"), ctx.state("pre_state")
    ctx.assume(land(since >= 0, since <= total))
    recs = [ctx.int("rec0") if r0 else None, ctx.int("rec1") if r1 else None]
    ctx.assume(_recs_inv(ctx, recs, total, since, st))
    nerr = ctx.int("n_errors")
    ctx.assume(land(nerr >= 0, nerr <= since))
    ctx.assume(implies(lnot(state_is(st, None)), nerr >= nth))
    d._total_samples, d._samples_since_reset, d._drift_state = total, since, st
    d._retraining_recs = list(recs)
    d._n_errors = nerr
    cur_, last = ctx.int("idx_curr"), ctx.int("idx_last")
    ctx.assume(land(last >= 0, last <= cur_, cur_ <= since))
    d._index_error_curr, d._index_error_last = cur_, last
    m, sd, mx = ctx.real("dist_mean"), ctx.real("dist_std"), ctx.real("max_numerator")
    ctx.assume(land(m >= 0, sd >= 0, mx >= 0))
    d._dist_mean, d._dist_std, d._max_numerator = m, sd, mx
    d.update(ctx.int("y_true"), ctx.int("y_pred"))
    _check_counters(ctx, d, total, since, st)
    post = d.drift_state
    ctx.prove(implies(lnot(state_is(post, None)), d._n_errors >= nth), "no-alarm-before-n_threshold-errors")
    ctx.prove(land(d._n_errors >= 0, d._n_errors <= d.samples_since_reset), "inv-n_errors")
    _check_recs_on_drift(ctx, d, total, st)
    ctx.prove(_recs_inv(ctx, list(d.retraining_recs), d.total_samples, d.samples_since_reset, post), "inv-recs")
    _witness_state(ctx, post)
    if state_is(st, "drift") is not False:
        ctx.witness("after-drift")


# --------------------------------------------------------------------------
# STEPD: one step, window of concrete length L = min(since, window_size)


def _stepd_recs_inv(recs, total, since, st):
    r0, r1 = recs
    lo, hi = total - since, total - 1
    if r0 is None:
        return land(r1 is None, state_is(st, None))
    if r1 is None:
        return False
    # an uninterrupted warning/drift run that started at r0 and reaches the last sample
    return land(between(lo, r0, hi), r1 == hi, lnot(state_is(st, None)))


def body_stepd_step(ctx, L, has_recs):
    from menelaus.concept_drift import stepd as M

    ws = ctx.int("window_size")
    d = M.STEPD(window_size=ws, alpha_warning=ctx.real("alpha_warning"), alpha_drift=ctx.real("alpha_drift"))
    total, since, st = ctx.int("total"), ctx.int("since"), ctx.state("pre_state")
    ctx.assume(land(ws >= 1, since >= 0, since <= total))
    ctx.assume(ite(since <= ws, since == L, ws == L))  # len(window) == min(since, window_size)
    win = [ctx.int(f"w{i}") for i in range(L)]
    for w in win:
        ctx.assume(between(0, w, 1))
    r = ctx.int("r")
    ctx.assume(between(0, r, since - L))
    s = 0
    for w in win:
        s = s + w
    recs = np.array([ctx.int("rec0"), ctx.int("rec1")] if has_recs else [None, None], dtype=object)
    ctx.assume(_stepd_recs_inv(list(recs), total, since, st))
    ctx.assume(implies(lnot(state_is(st, None)), since >= 2 * ws))
    d._total_samples, d._samples_since_reset, d._drift_state = total, since, st
    d._retraining_recs = recs
    d._s, d._r, d._window = s, r, list(win)
    with rebind(M, scipy=stubs.fake_scipy_norm(uf=False)):
        d.update(ctx.int("y_true"), ctx.int("y_pred"))
    _check_counters(ctx, d, total, since, st)
    post = d.drift_state
    ctx.prove(implies(lnot(state_is(post, None)), d.samples_since_reset >= 2 * ws), "no-alarm-before-two-windows")
    nl = len(d._window)
    ctx.prove(ite(d.samples_since_reset <= ws, d.samples_since_reset == nl, ws == nl), "inv-window-length")
    _check_recs_on_drift(ctx, d, total, st)
    ctx.prove(_stepd_recs_inv(list(d.retraining_recs), d.total_samples, d.samples_since_reset, post), "inv-recs")
    _witness_state(ctx, post)
    if state_is(st, "drift") is not False:
        ctx.witness("after-drift")


# --------------------------------------------------------------------------
# PageHinkley: one step


def body_ph_step(ctx, direction):
    from menelaus.change_detection import PageHinkley

    burn = ctx.int("burn_in")
    d = PageHinkley(delta=ctx.real("delta"), threshold=ctx.real("threshold"), burn_in=burn, direction=direction)
    total, since, st = ctx.int("total"), ctx.int("since"), ctx.state("pre_state")
    ctx.assume(land(since >= 0, since <= total, lnot(state_is(st, "warning"))))
    ctx.assume(implies(state_is(st, "drift"), since > burn))
    d._total_samples, d._samples_since_reset, d._drift_state = total, since, st
    d._mean, d._sum, d._min, d._max = ctx.real("mean"), ctx.real("sum"), ctx.real("min"), ctx.real("max")
    d.update(ctx.real("x"))
    _check_counters(ctx, d, total, since, st)
    post = d.drift_state
    ctx.prove(lnot(state_is(post, "warning")), "ph-never-warns")
    ctx.prove(implies(state_is(post, "drift"), d.samples_since_reset > burn), "no-alarm-during-burn_in")
    _witness_state(ctx, post)
    if state_is(st, "drift") is not False:
        ctx.witness("after-drift")


# --------------------------------------------------------------------------
# bounded histories from the public constructor (heap-state detectors)


def body_history(ctx, det, N, cfg):
    from .drivers import DRIVERS

    with DRIVERS[det](ctx, **cfg) as drv:
        d = drv.det
        restart = drv.restart_value()
        for i in range(N):
            pre_state = d.drift_state
            total, since = drv.counters()
            if hasattr(drv, "pre_update"):
                drv.pre_update(d)
            try:
                drv.step(i)
            except ValueError as e:
                if det == "CUSUM" and "Standard deviation is 0" in str(e):
                    ctx.witness("cusum-zero-sd")  # documented error path
                    return
                raise
            t2, s2 = drv.counters()
            ctx.prove(ctx.eq(t2, total + 1), "total-counter-plus-one")
            ctx.prove(ctx.eq(s2, ite(state_is(pre_state, "drift"), restart, since + 1)), "since-reset-counter")
            post = d.drift_state
            ctx.prove(in_domain(post), "state-domain")
            if not drv.warns:
                ctx.prove(lnot(state_is(post, "warning")), "never-warns")
            ctx.prove(implies(lnot(state_is(post, None)), drv.warm(d, s2, t2)), "no-alarm-before-warm-up")
            if drv.has_recs:
                recs = list(d.retraining_recs)
                if state_is(post, "drift") is True:
                    ctx.prove(recs[0] is not None and recs[1] is not None, "recs-set-on-drift")
                    if recs[0] is not None and recs[1] is not None:
                        ctx.prove(land(recs[0] <= recs[1], ctx.eq(recs[1], t2 - 1)), "recs-range-on-drift")
                if state_is(pre_state, "drift") is True:
                    if drv.recs_span_epochs:
                        # the update after a drift clears the recommendation; only a new drift sets a new one
                        if state_is(post, "drift") is not True:
                            ctx.prove(recs[0] is None and recs[1] is None, "recs-cleared-after-drift")
                    else:
                        for r in recs:
                            if r is not None:
                                ctx.prove(r >= total, "recs-cleared-after-drift")
                    ctx.witness("after-drift")
            elif state_is(pre_state, "drift") is True:
                ctx.witness("after-drift")
            if state_is(post, "drift") is True:
                ctx.witness("state-drift")
            extra = getattr(drv, "extra_contract", None)
            if extra:
                extra(ctx, i, pre_state, total, since)


# --------------------------------------------------------------------------
# data-drift detectors: their since-reset counters have detector-specific restarts


def _basic(ctx, d, drv, total_exp, since_exp, warm):
    t2, s2 = drv.counters()
    ctx.prove(ctx.eq(t2, total_exp), "total-counter")
    ctx.prove(ctx.eq(s2, since_exp), "since-reset-counter")
    post = d.drift_state
    ctx.prove(in_domain(post), "state-domain")
    ctx.prove(lnot(state_is(post, "warning")), "never-warns")
    ctx.prove(implies(lnot(state_is(post, None)), warm), "no-alarm-before-warm-up")
    if state_is(post, "drift") is True:
        ctx.witness("state-drift")


def body_kdq_stream(ctx, N, w):
    from .drivers import DRIVERS

    with DRIVERS["KdqTreeStreaming"](ctx, window_size=w) as drv:
        d = drv.det
        pos = 0  # samples of the current epoch (reference-model bookkeeping of the harness)
        for i in range(N):
            pre = d.drift_state
            total, since = drv.counters()
            if state_is(pre, "drift") is True:
                pos = 0
                ctx.witness("after-drift")
            drv.step(i)
            pos += 1
            # the counter restarts when the reference window completes, and after a drift
            since_exp = pos if pos < w else pos - w
            _basic(ctx, d, drv, total + 1, since_exp, pos >= 2 * w)


def body_kdq_batch(ctx, N, set_ref):
    from .drivers import DRIVERS

    with DRIVERS["KdqTreeBatch"](ctx) as drv:
        d = drv.det
        if set_ref:
            d.set_reference(drv.fresh_batch("ref"))
            ctx.prove(land(d.total_batches == 0, d.batches_since_reset == 0), "set_reference-not-counted")
        have_ref = bool(set_ref)
        for i in range(N):
            pre = d.drift_state
            total, since = drv.counters()
            drv.step(i)
            if not have_ref:
                # the batch that builds the reference: counted in the total, epoch counter restarts to 0
                _basic(ctx, d, drv, total + 1, 0, False)
                have_ref = True
            else:
                was = state_is(pre, "drift") is True
                if was:
                    ctx.witness("after-drift")
                _basic(ctx, d, drv, total + 1, 1 if was else since + 1, True)


def body_hdm(ctx, N, cfg):
    from .drivers import DRIVERS

    db = cfg["detect_batch"]
    with DRIVERS["HDM"](ctx, **cfg) as drv:
        d = drv.det
        d.set_reference(drv.fresh_batch("ref", rows=cfg.get("ref_rows", 4)))
        # detect_batch=1 splits a proxy test batch off the reference, and counts it
        ctx.prove(land(d.total_batches == (1 if db == 1 else 0), d.batches_since_reset == (1 if db == 1 else 0)),
                  "counters-after-set_reference")
        for i in range(N):
            pre = d.drift_state
            total, since = drv.counters()
            drv.step(i)
            was = state_is(pre, "drift") is True
            if was:
                ctx.witness("after-drift")
            extra = 1 if (was and db == 1) else 0
            since_exp = (2 if db == 1 else 1) if was else since + 1
            _, s2 = drv.counters()
            _basic(ctx, d, drv, total + 1 + extra, since_exp, s2 >= (3 if db == 3 else 2))


def body_nndvi(ctx, N):
    from .drivers import DRIVERS

    with DRIVERS["NNDVI"](ctx) as drv:
        d = drv.det
        d.set_reference(drv.fresh_batch("ref"))
        ctx.prove(land(d.total_batches == 0, d.batches_since_reset == 0), "set_reference-not-counted")
        for i in range(N):
            pre = d.drift_state
            total, since = drv.counters()
            drv.step(i)
            was = state_is(pre, "drift") is True
            if was:
                ctx.witness("after-drift")
            _basic(ctx, d, drv, total + 1, 1 if was else since + 1, True)


def body_pcacd(ctx, N, cfg):
    from .drivers import DRIVERS

    w = cfg["window_size"]
    with DRIVERS["PCACD"](ctx, **cfg) as drv:
        d = drv.det
        epoch = 0
        for i in range(N):
            pre = d.drift_state
            total, since = drv.counters()
            drv.step(i)
            was = state_is(pre, "drift") is True
            if was:
                epoch += 1
                ctx.witness("after-drift")
            _, s2 = drv.counters()
            # first epoch: reference + test window (2w samples); later: the old test window is the
            # reference, w further samples fill the test window; the sample that triggers the rebuild is discarded
            need = 2 * w if epoch == 0 else w
            _basic(ctx, d, drv, total + 1, 0 if was else since + 1, s2 > need)


# --------------------------------------------------------------------------


def jobs(tier):
    out = []
    for r0, r1 in ((0, 0), (1, 0), (1, 1)):
        out.append(Job(f"ddm-step-recs{r0}{r1}", "checks.c01:body_ddm_step", {"r0": r0, "r1": r1},
                       expect=("after-drift", "state-drift", "state-warning") if (r0, r1) != (1, 1) else ("after-drift",)))
        out.append(Job(f"eddm-step-recs{r0}{r1}", "checks.c01:body_eddm_step", {"r0": r0, "r1": r1},
                       expect=("after-drift",) if (r0, r1) == (1, 1) else ("state-drift", "state-warning")))
    for L in range(0, 4 if tier == "quick" else 6):
        for hr in (0, 1):
            out.append(Job(f"stepd-step-L{L}-recs{hr}", "checks.c01:body_stepd_step", {"L": L, "has_recs": hr}))
    for direction in ("positive", "negative"):
        out.append(Job(f"ph-step-{direction}", "checks.c01:body_ph_step", {"direction": direction},
                       expect=("after-drift", "state-drift")))
    # ---- bounded histories
    q = tier == "quick"
    for burn in (2, 3):
        for tg in (False, True):
            for direction in (None, "positive", "negative") if (not q or burn == 2) else (None,):
                out.append(Job(f"cusum-hist-b{burn}-tg{int(tg)}-{direction}", "checks.c01:body_history",
                               {"det": "CUSUM", "N": 2 * burn + (3 if q else 4),
                                "cfg": {"burn_in": burn, "target_given": tg, "direction": direction, "havoc_stats": True}},
                               expect=("after-drift", "state-drift")))
    for mb in (1, 2) if q else (1, 2, 3):
        for nst in (1, 2) if q else (1, 2, 4):
            for wst in (0, 2):
                out.append(Job(f"adwin-hist-mb{mb}-nst{nst}-wst{wst}", "checks.c01:body_history",
                               {"det": "ADWIN", "N": 9 if q else (13 if nst == 4 else 8 if (mb == 3 and nst == 1) else 10),
                                "cfg": {"max_buckets": mb, "new_sample_thresh": nst, "window_size_thresh": wst,
                                        "subwindow_size_thresh": 1}},
                               expect=("after-drift", "state-drift")))
    for w in (1, 2) if q else (1, 2, 3):
        out.append(Job(f"kdqstream-w{w}", "checks.c01:body_kdq_stream", {"N": 3 * w + 4, "w": w},
                       expect=("after-drift", "state-drift")))
    for sr in (0, 1):
        out.append(Job(f"kdqbatch-setref{sr}", "checks.c01:body_kdq_batch", {"N": 4 if q else 5, "set_ref": sr},
                       expect=("after-drift", "state-drift")))
    for db in (1, 2, 3):
        for stat in ("stdev", "tstat"):
            for cls in ("HDDDM", "CDBD"):
                if q and cls == "CDBD" and stat == "tstat":
                    continue
                out.append(Job(f"hdm-{cls}-db{db}-{stat}", "checks.c01:body_hdm",
                               {"N": (4 if q else 6) + (1 if db == 3 else 0),
                                "cfg": {"cls": cls, "detect_batch": db, "statistic": stat,
                                        "features": 2 if cls == "HDDDM" else 1}},
                               expect=("after-drift", "state-drift")))
    out.append(Job("nndvi", "checks.c01:body_nndvi", {"N": 4 if q else 5}, expect=("after-drift", "state-drift")))
    for w in (2,) if q else (2, 3):
        for metric in ("intersection", "kl"):
            for osc in (True, False):
                out.append(Job(f"pcacd-w{w}-{metric}-scale{int(osc)}", "checks.c01:body_pcacd",
                               {"N": 4 * w + 2, "cfg": {"window_size": w, "metric": metric, "online_scaling": osc}},
                               expect=("after-drift", "state-drift")))
    # MD3 (DriftDetector base: total_updates / updates_since_reset): the protocol harness of C19 also proves the
    # counters, the state domain and that drift is only reported on the required-th oracle label
    for first in (["update", "oracle"], ["update", "update"], ["oracle", "update"]):
        out.append(Job(f"md3-{'.'.join(first)}", "checks.c19:body_protocol",
                       {"length": 4, "first_ops": first, "explicit_len": True}, opts={"validate": 1}))
    for mb in (1, 2):
        out.append(Job(f"adwinacc-hist-mb{mb}", "checks.c01:body_history",
                       {"det": "ADWINAccuracy", "N": 7 if (q or mb == 2) else 8,  # N=8 with max_buckets=2 exceeds 200k paths
                        "cfg": {"max_buckets": mb, "new_sample_thresh": 1, "window_size_thresh": 0,
                                "subwindow_size_thresh": 1}},
                       expect=("after-drift", "state-drift"),
                       ))
    # the wrapper must forward each threshold to the parameter of the same name: a minimum window above the sub-window
    # threshold (seed C01-7 forwarded subwindow_size_thresh as window_size_thresh)
    out.append(Job("adwinacc-hist-mb2-wst3-sub1", "checks.c01:body_history",
                   {"det": "ADWINAccuracy", "N": 7 if q else 8,
                    "cfg": {"max_buckets": 2, "new_sample_thresh": 1, "window_size_thresh": 3, "subwindow_size_thresh": 1}},
                   expect=("after-drift", "state-drift")))
    for burn in (0, 1, 2):
        for sub in (1, 2):
            n = 3 if q else 4
            first_test = min(t for t in range(1, 50) if t > burn and t % sub == 0)
            exp = (("state-drift",) if first_test <= n else ()) + (("after-drift",) if first_test < n else ())
            out.append(Job(f"lfr-hist-b{burn}-s{sub}", "checks.c01:body_history",
                           {"det": "LinearFourRates", "N": n,
                            "cfg": {"burn_in": burn, "subsample": sub, "rates_tracked": ["ppv"]}},
                           expect=exp))
    out.append(Job("lfr-hist-two-rates", "checks.c01:body_history",
                   {"det": "LinearFourRates", "N": 2 if q else 3,
                    "cfg": {"burn_in": 0, "subsample": 1, "rates_tracked": ["tpr", "npv"]}},
                   expect=("after-drift", "state-drift")))
    return out
