"""C19 - MD3 follows its warn / ask-the-oracle / confirm protocol.

B: every call sequence up to the bound over {update(valid), update(2 rows),
give_oracle_label(valid), give_oracle_label(2 rows), give_oracle_label(wrong
columns)} runs through the real MD3 methods; the per-sample margin signal
(public margin_calculation_function hook), the reference summaries, the oracle
accuracy, sensitivity and the required number of labels are symbolic.  The
real object is compared after every call with the state machine of the
statement; refused calls must raise ValueError and leave the complete state
unchanged.
"""
import copy

import numpy as np
import pandas as pd

from symx.core import Sym, SymBool, cur
from symx.logic import b2i, between, iff, implies, ite, land, lnot, lor, state_is
from symx.run import Job

from . import stubs
from .common import rebind, states_equal, values_equal

PROPERTY = "C19"
ENCODED = [
    "menelaus.concept_drift.md3:MD3.__init__", "menelaus.concept_drift.md3:MD3.set_reference",
    "menelaus.concept_drift.md3:MD3.update", "menelaus.concept_drift.md3:MD3.give_oracle_label",
    "menelaus.concept_drift.md3:MD3.reset", "menelaus.concept_drift.md3:MD3.calculate_distribution_statistics", "menelaus.detector:DriftDetector.update", "menelaus.detector:DriftDetector.reset",
]
BOUNDS = {
    "quick": "k-fold summary: 2-3 folds of sizes (1,1), (2,1), (3,2), (2,2,1) with symbolic margin signals and fold accuracies; "
             "all call sequences of length <=4 over the five operations after set_reference; reference size N>=1, "
             "oracle_data_length_required in {None (=N), symbolic >=1}, sensitivity and all reference statistics symbolic reals, "
             "margin signal symbolic in {0,1}, oracle accuracy symbolic in [0,1]",
    "thorough": "call sequences of length <=6; folds up to (3,3,2) and (2,2,2,1)",
}
OUTSIDE = ("sklearn KFold / clone / fit / predict / accuracy_score themselves (recording stubs in the summary jobs, symbolic statistics "
           "in the protocol jobs); the default margin function (needs a fitted linear classifier); sequences longer than the bound")
ASSUMPTIONS = [
    "calculate_distribution_statistics returns arbitrary (len>=1, md, md_std>=0, acc, acc_std>=0); accuracy_score returns an "
    "arbitrary value in [0,1]; the classifier is a deterministic stub; the margin signal is an arbitrary 0/1 value per sample",
]
TRUSTED = ["z3", "pandas (concat / column selection on small concrete frames)"]

OPS = ("update", "update2", "oracle", "oracle2", "oracle_badcols", "reset")


class Clf:
    seen = []  # column labels of every frame handed to predict (argument obligation at the confirmation step)

    def predict(self, X):
        Clf.seen.append(list(X.columns) if hasattr(X, "columns") else None)
        return np.zeros(len(X))

    def fit(self, X, y):
        return self


def _stats(ctx, tag):
    n = ctx.int(f"N_{tag}")
    md, mds, acc, accs = ctx.real(f"md_{tag}"), ctx.real(f"md_std_{tag}"), ctx.real(f"acc_{tag}"), ctx.real(f"acc_std_{tag}")
    ctx.assume(land(n >= 1, mds >= 0, accs >= 0))
    return {"len": n, "md": md, "md_std": mds, "acc": acc, "acc_std": accs}


def body_protocol(ctx, length, first_ops, explicit_len):
    from menelaus.concept_drift import md3 as M

    sens = ctx.real("sensitivity")
    L0 = ctx.int("oracle_len") if explicit_len else None
    if L0 is not None:
        ctx.assume(L0 >= 1)
    nstats = [0]

    def margin(self, sample, clf):
        s = cur().int("signal")
        cur().assume_unchecked(between(0, s, 1))
        return s

    del Clf.seen[:]
    d = M.MD3(Clf(), margin_calculation_function=margin, sensitivity=sens, k=2, oracle_data_length_required=L0)

    def fake_stats(data):
        nstats[0] += 1
        st = _stats(cur(), f"ref{nstats[0]}")
        fake_stats.last = st
        return st

    d.calculate_distribution_statistics = fake_stats

    def fake_acc(y_true, y_pred):
        a = cur().real("oracle_accuracy")
        cur().assume_unchecked(between(0, a, 1))
        fake_acc.last = a
        return a

    ref = pd.DataFrame({"f1": [0.0, 1.0, 2.0], "f2": [1.0, 0.0, 1.0], "y": [0, 1, 0]})
    with rebind(M, accuracy_score=fake_acc):
        d.set_reference(ref, target_name="y")
        st = fake_stats.last
        # ---- specification state
        S = dict(N=st["len"], md_ref=st["md"], md_std=st["md_std"], acc_ref=st["acc"], acc_std=st["acc_std"],
                 md=st["md"], waiting=False, collected=0, state=None, total=0, since=0,
                 L=L0 if L0 is not None else st["len"])
        ctx.prove(land(ctx.eq(d.forgetting_factor, (S["N"] - 1) / S["N"]), ctx.eq(d.curr_margin_density, S["md"]),
                       ctx.eq(d.oracle_data_length_required, S["L"])), "set_reference-initialises-protocol")
        for step in range(length):
            if step < len(first_ops):
                op = first_ops[step]
            else:
                op = OPS[int(ctx.int(f"op{step}") % len(OPS))] if False else None
            if op is None:
                k = ctx.int(f"op{step}")
                ctx.assume(between(0, k, len(OPS) - 1))
                op = OPS[int(k)]
            before = {k: v for k, v in vars(d).items()}
            before_frames = {k: (v.copy() if isinstance(v, pd.DataFrame) else v) for k, v in before.items()}
            raised = False
            try:
                if op == "update":
                    d.update(pd.DataFrame({"f1": [0.5 + step], "f2": [1.5]}))
                elif op == "update2":
                    d.update(pd.DataFrame({"f1": [0.5, 0.6], "f2": [1.5, 1.6]}))
                elif op == "oracle":
                    # the labelled sample may list its columns in any order (names are compared as a set)
                    # (decided for the first sample of a round, which fixes the column order of the collected frame)
                    if d.oracle_data is None and length <= 4 and bool(ctx.bool(f"oracle_columns_permuted{step}")):
                        d.give_oracle_label(pd.DataFrame({"f2": [1.5], "y": [1], "f1": [0.5 + step]}))
                        ctx.witness("permuted-oracle-columns")
                    else:
                        d.give_oracle_label(pd.DataFrame({"f1": [0.5 + step], "f2": [1.5], "y": [1]}))
                elif op == "oracle2":
                    d.give_oracle_label(pd.DataFrame({"f1": [0.5, 0.6], "f2": [1.5, 1.6], "y": [1, 0]}))
                elif op == "reset":
                    if S["waiting"]:
                        continue  # what a manual reset means while labels are awaited is not specified: not exercised
                    d.reset()
                else:
                    d.give_oracle_label(pd.DataFrame({"f1": [0.5], "other": [1.5], "y": [1]}))
            except ValueError:
                raised = True
            # ---- specification
            legal = (op == "update" and not S["waiting"]) or (op == "oracle" and S["waiting"]) or op == "reset"
            ctx.prove(raised == (not legal), "refusals-exactly-as-documented")
            if raised:
                same = states_equal(ctx, before_frames, dict(vars(d)))
                ctx.prove(same, "refused-call-changes-nothing")
                ctx.witness("refused-" + op)
                continue
            if op == "reset":
                # a manual reset is the reset the detector performs itself after a drift: tracking restarts from the
                # reference margin density
                S["state"], S["since"], S["md"] = None, 0, S["md_ref"]
                ctx.prove(d.drift_state is None, "reset-clears-state")
                ctx.prove(ctx.eq(d.curr_margin_density, S["md"]), "reset-restarts-from-reference-margin-density")
                ctx.witness("manual-reset")
            elif op == "update":
                if S["state"] == "drift":
                    S["state"], S["since"], S["md"] = None, 0, S["md_ref"]
                S["total"] += 1
                S["since"] += 1
                lam = (S["N"] - 1) / S["N"]
                sig = ctx_last_signal(ctx)
                S["md"] = lam * S["md"] + (1 - lam) * sig
                dev = S["md"] - S["md_ref"]
                warn = ite(dev >= 0, dev, -dev) > sens * S["md_std"]
                post = d.drift_state
                ctx.prove(iff(state_is(post, "warning"), warn), "warning-iff-margin-density-deviates")
                ctx.prove(iff(d.waiting_for_oracle is True, warn), "waiting-iff-warning")
                if state_is(post, "warning") is True:
                    S["state"], S["waiting"] = "warning", True
                    ctx.witness("warning")
                else:
                    ctx.prove(post is None, "no-warning-means-state-None")
                ctx.prove(ctx.eq(d.curr_margin_density, S["md"]), "margin-density-recurrence")
            else:  # legal oracle label
                S["state"] = None
                S["collected"] += 1
                done = S["collected"] == S["L"]
                finished = d.waiting_for_oracle is False
                ctx.prove(iff(finished, done), "confirmation-after-exactly-the-required-labels")
                if finished:
                    acc = fake_acc.last
                    # the classifier is asked about the oracle rows with the features in the order it was trained on
                    ctx.prove(bool(Clf.seen) and Clf.seen[-1] == list(before_frames["reference_batch_features"].columns),
                              "classifier-gets-the-oracle-features-in-reference-order")
                    drift = S["acc_ref"] - acc > sens * S["acc_std"]
                    ctx.prove(iff(state_is(d.drift_state, "drift"), drift), "drift-iff-accuracy-drop")
                    ctx.prove(d.drift_state is None or d.drift_state == "drift", "oracle-verdict-domain")
                    st = fake_stats.last
                    S.update(N=st["len"], md_ref=st["md"], md_std=st["md_std"], acc_ref=st["acc"], acc_std=st["acc_std"],
                             md=st["md"], waiting=False, collected=0, state=d.drift_state)
                    ctx.prove(d.oracle_data is None, "oracle-buffer-cleared")
                    ctx.prove(len(d.reference_batch_features) == len(before_frames["oracle_data"]) + 1
                              if before_frames["oracle_data"] is not None else len(d.reference_batch_features) == 1,
                              "oracle-rows-become-the-reference")
                    ctx.prove(land(ctx.eq(d.curr_margin_density, S["md"]), ctx.eq(d.forgetting_factor, (S["N"] - 1) / S["N"])),
                              "restart-from-new-reference")
                    ctx.witness("confirmed-drift" if d.drift_state == "drift" else "ruled-out")
                else:
                    ctx.prove(d.drift_state is None, "collecting-labels-state-None")
                    ctx.prove(len(d.oracle_data) == S["collected"], "oracle-buffer-grows-by-one")
            ctx.prove(land(d.total_updates == S["total"], d.updates_since_reset == S["since"]), "counters")
            ctx.prove(ctx.eq(d.oracle_data_length_required, S["L"]), "required-length-fixed")


def ctx_last_signal(ctx):
    """the most recent 'signal' symbol created on this path"""
    k = ctx.names.get("signal", 0) - 1
    name = "signal" if k == 0 else f"signal#{k}"
    if ctx.symbolic:
        return Sym(ctx.symbols[name])
    return int(ctx.model.get(name, 0)) if isinstance(ctx.model.get(name, 0), int) else int(ctx.model[name])


def body_summary(ctx, folds, via):
    """the k-fold reference summary: mean and (population) standard deviation over the folds of the per-fold margin
    density and of the per-fold accuracy.  KFold / clone / accuracy_score are recording stubs; the folds have the given
    (possibly unequal) sizes; the margin signal of every row and the accuracy of every fold are symbolic."""
    from menelaus.concept_drift import md3 as M
    from specs.sequential_tests import mean_of, pop_std_of

    n = sum(folds)
    k = len(folds)
    sig = [ctx.int(f"signal{i}") for i in range(n)]
    for v in sig:
        ctx.assume(between(0, v, 1))
    accs = [ctx.real(f"accuracy{j}") for j in range(k)]
    for a in accs:
        ctx.assume(between(0, a, 1))
    rec = {"kfold": [], "fit": [], "acc": [], "margin": []}
    idx, start = [], 0
    for f in folds:
        idx.append(list(range(start, start + f)))
        start += f

    class FakeKFold:
        def __init__(self, n_splits=5, shuffle=False, random_state=None):
            rec["kfold"].append(n_splits)

        def split(self, X):
            for test in idx:
                yield np.array([i for i in range(n) if i not in test]), np.array(test)

    class FoldClf(Clf):
        def fit(self, X, y):
            rec["fit"].append((list(X["row"]), list(y)))
            return self

        def predict(self, X):
            return ("pred", tuple(X["row"]))

    def fake_clone(clf):
        return FoldClf()

    def fake_acc(y_true, y_pred):
        j = len(rec["acc"])
        rec["acc"].append((list(np.asarray(y_true).reshape(-1)), y_pred))
        return accs[j]

    def margin(self, sample, clf):
        i = int(sample[0])
        rec["margin"].append((i, type(clf).__name__))
        return sig[i]

    del Clf.seen[:]
    d = M.MD3(Clf(), margin_calculation_function=margin, sensitivity=ctx.real("sensitivity"), k=k)
    ref = pd.DataFrame({"row": list(range(n)), "f2": [float(i % 2) for i in range(n)], "y": [i % 2 for i in range(n)]})
    shim = stubs.NpShim()
    with rebind(M, KFold=FakeKFold, clone=fake_clone, accuracy_score=fake_acc, np=shim):
        if via == "set_reference":
            d.set_reference(ref, target_name="y")
            st = d.reference_distribution
        else:
            # the summary of a new reference adopted after an oracle round goes through the same function
            d.reference_batch_features = ref.loc[:, ref.columns != "y"]
            d.reference_batch_target = ref.loc[:, ref.columns == "y"]
            st = d.calculate_distribution_statistics(ref)
    ctx.prove(rec["kfold"] == [k], "k-folds-as-configured")
    ctx.prove([m[0] for m in rec["margin"]] == [i for f in idx for i in f] and all(m[1] == "FoldClf" for m in rec["margin"]),
              "margin-signal-of-every-held-out-row-from-the-fold-classifier")
    ctx.prove(len(rec["fit"]) == k and all(fr == [i for i in range(n) if i not in f] and fy == [i % 2 for i in range(n) if i not in f]
                                           for (fr, fy), f in zip(rec["fit"], idx)), "fold-classifier-fitted-on-the-training-part")
    ctx.prove(len(rec["acc"]) == k and all(ya == [i % 2 for i in f] and yp == ("pred", tuple(f))
                                           for (ya, yp), f in zip(rec["acc"], idx)), "accuracy-on-the-held-out-part")
    dens = [sum(sig[i] for i in f) / len(f) for f in idx]
    ctx.prove(st["len"] == n, "summary-length")
    ctx.prove(ctx.eq(st["md"], mean_of(dens)), "margin-density-is-the-mean-over-folds")
    ctx.prove(ctx.eq(st["md_std"], pop_std_of(dens)), "margin-density-deviation-over-folds")
    ctx.prove(ctx.eq(st["acc"], mean_of(accs)), "accuracy-is-the-mean-over-folds")
    ctx.prove(ctx.eq(st["acc_std"], pop_std_of(accs)), "accuracy-deviation-over-folds")
    if via == "set_reference":
        ctx.prove(land(ctx.eq(d.curr_margin_density, mean_of(dens)), ctx.eq(d.forgetting_factor, (n - 1) / n),
                       d.oracle_data_length_required == n), "set_reference-starts-from-the-summary")
    ctx.witness("summary")


def jobs(tier):
    from itertools import product

    q = tier == "quick"
    length = 4 if q else 6
    out = []
    for explicit in (False, True):
        for first in product(OPS, repeat=2):
            exp = ()
            out.append(Job(f"protocol-len{int(explicit)}-{'.'.join(first)}", "checks.c19:body_protocol",
                           {"length": length, "first_ops": list(first), "explicit_len": explicit},
                           opts={"validate": 1}))
    # witnesses that must be reachable somewhere: checked on the two richest jobs
    out.append(Job("protocol-witness", "checks.c19:body_protocol",
                   {"length": 4, "first_ops": ["update", "oracle", "update", "oracle"], "explicit_len": True},
                   expect=("warning", "confirmed-drift", "ruled-out"), opts={"validate": 2}))
    out.append(Job("protocol-witness-refusals", "checks.c19:body_protocol",
                   {"length": 4, "first_ops": ["oracle", "update", "update", "oracle_badcols"], "explicit_len": False},
                   expect=("refused-oracle", "refused-update", "refused-oracle_badcols"), opts={"validate": 2}))
    for folds in ((1, 1), (2, 1), (3, 2), (2, 2, 1)) if q else ((1, 1), (2, 1), (3, 2), (2, 2, 1), (3, 3, 2), (2, 2, 2, 1)):
        for via in ("set_reference", "direct"):
            out.append(Job(f"summary-{'x'.join(map(str, folds))}-{via}", "checks.c19:body_summary",
                           {"folds": list(folds), "via": via}, expect=("summary",), opts={"validate": 1}))
    return out
