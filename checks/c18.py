"""C18 - batch detectors ignore the order of rows inside a batch.

Kernel level (symbolic cells, every permutation): kdq-tree leaf counts (real
build/fill), HDDDM/CDBD distances (real update with the counting model of
np.histogram and the real Hellinger kernel), NNSP union / membership / distance
(real build with the unique model).
Decision level (N<=3 batches): HDDDM/CDBD detect_batch 3, KdqTreeBatch and NNDVI
runs on a batch sequence and on the same sequence with the rows of every batch
(and of the reference) permuted give the same decision sequence; library
kernels are functions of the *multiset* of rows there (their own order
independence is what the kernel-level obligations establish), so any order
dependence must come from menelaus code.
"""
import importlib
from itertools import permutations

import numpy as np
import pandas as pd

from symx import core
from symx.core import Sym, SymBool, cur
from symx.logic import b2i, between, iff, implies, ite, land, lnot, lor, state_is
from symx.run import Job

from . import c07, c08, c10, stubs
from .common import obj_array, rebind
from .drivers import DRIVERS

PROPERTY = "C18"
ENCODED = [
    "menelaus.partitioners.KDQTreePartitioner:KDQTreeNode.build", "menelaus.partitioners.KDQTreePartitioner:KDQTreeNode.fill",
    "menelaus.data_drift.histogram_density_method:HistogramDensityMethod.update",
    "menelaus.data_drift.histogram_density_method:HistogramDensityMethod._build_histograms",
    "menelaus.data_drift.histogram_density_method:HistogramDensityMethod.set_reference",
    "menelaus.partitioners.NNSpacePartitioner:NNSpacePartitioner.build", "menelaus.data_drift.kdq_tree:KdqTreeBatch.update",
    "menelaus.data_drift.nndvi:NNDVI.update",
]
BOUNDS = {
    "quick": "kdq: reference and test batch of <=3 symbolic rows (1-D and 2-D), every permutation of the test batch, every second permutation of the reference, cutpoint_proportion_lbound 0 and (2-D, coordinates in [0,4]) 0.5; HDM: reference 4 rows, "
             "test 3 rows of symbolic cells, 1-2 features, every permutation of the test batch and 5 of the reference, two "
             "consecutive batches; NNSP: samples of <=3+2 rows, every permutation; decision level: 3 batches, detect_batch=3",
    "thorough": "kdq reference <=4 rows with test batches <=3 rows (test permutations), reference permutations <=3 rows; NNSP 3+2 rows in 2-D",
}
OUTSIDE = ("order independence of numpy/scipy/sklearn primitives themselves (np.histogram counting model, np.unique model, kNN "
           "stub); HDDDM/CDBD with detect_batch=1 (the reference is split by position; excluded by the property); larger batches")
ASSUMPTIONS = [
    "np.histogram = counting model; np.unique(axis=0) = sort + de-duplicate model; NearestNeighbors stub is a function of the "
    "de-duplicated union; decision-level runs: stubbed kernels are functions of the multiset of rows of their arguments",
]
TRUSTED = ["z3", "numpy masks / pandas concat"]


def _perm(arr, p):
    return arr[list(p)]


def body_kdq(ctx, n, m, d, which, lbound=0, box=None):
    M = importlib.import_module("menelaus.partitioners.KDQTreePartitioner")
    R = c08._points(ctx, "r", n, d)
    T = c08._points(ctx, "t", m, d)
    if box is not None:
        # a positive cutpoint_proportion_lbound truncates lbound * range to an integer: coordinates are confined to a
        # small box so that the truncation is a bounded case split
        for v in list(R.reshape(-1)) + list(T.reshape(-1)):
            ctx.assume(between(0, v, box))
    with rebind(M, np=c08._np_shim()):
        base = M.KDQTreePartitioner(count_ubound=1, cutpoint_proportion_lbound=lbound)
        base.build(R)
        base.fill(T, "test")
        b0, t0 = base.leaf_counts("build"), base.leaf_counts("test")
        if which == "test":
            for p in permutations(range(m)):
                base.fill(_perm(T, p), "test", reset=True)
                ctx.prove(base.leaf_counts("test") == t0, "leaf-counts-invariant-under-test-row-order")
        else:
            for p in list(permutations(range(n)))[1::2]:  # every second permutation (incl. the full reversal)
                other = M.KDQTreePartitioner(count_ubound=1, cutpoint_proportion_lbound=lbound)
                other.build(_perm(R, p))
                other.fill(T, "test")
                ctx.prove(other.leaf_counts("build") == b0 and other.leaf_counts("test") == t0,
                          "leaf-counts-invariant-under-reference-row-order")
    ctx.witness("checked")


def body_kdq_bulk(ctx, total, k_sym, d):
    """Large test batches: `total` rows of which k_sym are symbolic (anywhere in value space) and the rest concrete,
    filed in several row orders against a concrete reference tree.  Size-dependent code paths (chunking, buffering,
    early exits at a row limit) are executed for real; the solver places the symbolic rows in every cell."""
    M = importlib.import_module("menelaus.partitioners.KDQTreePartitioner")
    rs = np.random.RandomState(7)
    R = np.round(rs.rand(12, d) * 8, 2)
    rows = [[ctx.real(f"t{i}_{j}") for j in range(d)] for i in range(k_sym)]
    rows += [list(map(float, r)) for r in np.round(rs.rand(total - k_sym, d) * 8, 2)]
    T = obj_array(rows)
    with rebind(M, np=c08._np_shim()):
        base = M.KDQTreePartitioner(count_ubound=2, cutpoint_proportion_lbound=0)
        base.build(R)
        base.fill(T, "test", reset=True)
        t0 = base.leaf_counts("test")
        ctx.prove(sum(t0) == total, "every-row-of-a-large-batch-is-counted-once")
        orders = {
            "reversed": list(range(total))[::-1],
            "symbolic-rows-last": list(range(k_sym, total)) + list(range(k_sym)),
            "rotated-by-a-third": list(range(total // 3, total)) + list(range(total // 3)),
        }
        for name, p in orders.items():
            base.fill(T[p], "test", reset=True)
            ctx.prove(base.leaf_counts("test") == t0, "leaf-counts-invariant-under-test-row-order")
    ctx.witness("checked")


def body_hdm(ctx, features, which, second, nr=4, stride=5):
    M = importlib.import_module("menelaus.data_drift.histogram_density_method")
    from menelaus.data_drift import HDDDM, CDBD

    nt = 3
    R = obj_array([[ctx.real(f"r{i}_{j}") for j in range(features)] for i in range(nr)])
    T = obj_array([[ctx.real(f"t{i}_{j}") for j in range(features)] for i in range(nt)])
    T2 = obj_array([[ctx.real(f"u{i}_{j}") for j in range(features)] for i in range(2)])
    rec = []

    def histogram(a, bins=10, range=None, **kw):
        if any(v is not None and v is not False for v in kw.values()):
            raise core.Inconclusive(f"np.histogram counting model: unsupported arguments {kw!r}")
        counts = c07.counting_histogram(list(np.asarray(a, dtype=object)), bins, range)
        rec.append((counts, bins, range))
        return (np.array(counts, dtype=object), None)

    shim = stubs.NpShim(histogram=histogram, concatenate=lambda parts: c07._Cat(parts))
    K = HDDDM if features > 1 else CDBD
    # the distance is a function of the two histograms (kernel lemma of C07): a constant divergence keeps the
    # obligation on what menelaus hands to it
    mk = lambda: K(divergence=lambda r, t: 0.0, detect_batch=3, statistic="stdev", significance=1.0)  # noqa: E731

    def run(Rp, Tp):
        del rec[:]
        det = mk()
        det.set_reference(Rp)
        det.update(Tp)
        if second:
            det.update(T2)
        return list(rec)

    def same(h1, h2):
        conds = [len(h1) == len(h2)]
        for (c1, b1, r1), (c2, b2, r2) in zip(h1, h2):
            conds.append(b1 == b2)
            conds.append(land(ctx.eq(r1[0], r2[0]), ctx.eq(r1[1], r2[1])))
            conds.extend(ctx.eq(x, y) for x, y in zip(c1, c2))
        return land(*conds)

    with rebind(M, np=shim):
        for f in range(features):
            ctx.assume(lnot(land(*[R[i, f] == R[0, f] for i in range(1, nr)])))
        base = run(R, T)
        perms = list(permutations(range(nt))) if which == "test" else list(permutations(range(nr)))[1::stride]
        for p in perms:
            other = run(R, _perm(T, p)) if which == "test" else run(_perm(R, p), T)
            ctx.prove(same(base, other), "histograms-invariant-under-row-order")
    ctx.witness("checked")


def body_nnsp(ctx, n1, n2, d):
    M = importlib.import_module("menelaus.partitioners.NNSpacePartitioner")
    s1 = obj_array([[ctx.real(f"a{i}_{j}") for j in range(d)] for i in range(n1)])
    s2 = obj_array([[ctx.real(f"b{i}_{j}") for j in range(d)] for i in range(n2)])
    shim = stubs.NpShim(unique=c10.model_unique)
    with rebind(M, np=shim, NearestNeighbors=c10.FakeNN):
        base = M.NNSpacePartitioner(2)
        base.build(s1, s2)
        d0 = M.NNSpacePartitioner.compute_nnps_distance(base.nnps_matrix, base.v1, base.v2)
        for p1 in permutations(range(n1)):
            for p2 in permutations(range(n2)):
                o = M.NNSpacePartitioner(2)
                o.build(_perm(s1, p1), _perm(s2, p2))
                same_D = o.D.shape == base.D.shape and all(c10._row_eq(x, y) for x, y in zip(o.D, base.D))
                ctx.prove(same_D and list(o.v1) == list(base.v1) and list(o.v2) == list(base.v2),
                          "union-and-membership-invariant-under-row-order")
                d1 = M.NNSpacePartitioner.compute_nnps_distance(o.nnps_matrix, o.v1, o.v2)
                ctx.prove(d1 == d0, "nnps-distance-invariant-under-row-order")
    ctx.witness("checked")


def _canon(a):
    a = np.asarray(a, dtype=float)
    return a[np.lexsort(a.T[::-1])] if a.ndim == 2 else np.sort(a)


def body_decisions(ctx, det, seed, sizes=None):
    """original vs row-permuted batch sequence: equal decision sequence; `sizes` = rows per batch (cycled), so that
    test batches larger and smaller than the current reference occur (seed C18-8 cut a batch to the reference's size)"""
    rs = np.random.RandomState(seed)
    nb = 6 if det == "HDM" else 3  # HDM can alarm from the third batch of an epoch on: leave room for a second epoch
    sizes = sizes or [4]
    batches = [np.round(rs.rand(sizes[k % len(sizes)], 2) * 6 + (k == 2) * 2, 2) for k in range(nb + 1)]
    permuted = [b[rs.permutation(len(b))] for b in batches]
    real_keyof = stubs.keyof

    def keyof(obj):
        # library kernels as functions of the multiset of rows of array arguments
        if isinstance(obj, (np.ndarray, pd.DataFrame)) and np.asarray(obj).ndim == 2 and np.asarray(obj).dtype != object:
            return real_keyof(_canon(obj))
        if isinstance(obj, (list, tuple)):
            return ("seq", tuple(keyof(e) for e in obj))
        return real_keyof(obj)

    cfg = {"HDM": {"cls": "HDDDM", "detect_batch": 3, "statistic": "stdev", "features": 2}, "KdqTreeBatch": {"dim": 2}, "NNDVI": {"dim": 2}}[det]
    stubs.keyof = keyof
    try:
        with DRIVERS[det](ctx, **cfg) as drv:
            A, B = drv.det, drv.twin()
            if det != "KdqTreeBatch":
                A.set_reference(batches[0])
                B.set_reference(permuted[0])
            else:
                A.update(batches[0])
                B.update(permuted[0])
            for k in range(1, nb + 1):
                A.update(batches[k])
                B.update(permuted[k])
                sa, sb = A.drift_state, B.drift_state
                ctx.prove(sa is sb or sa == sb, "decision-sequence-invariant-under-row-order")
                if det == "HDM":
                    ctx.prove(ctx.eq(A.current_distance, B.current_distance), "distance-invariant-under-row-order")
                if state_is(sa, "drift") is True:
                    ctx.witness("drift")
            ctx.witness("checked")
    finally:
        stubs.keyof = real_keyof


def jobs(tier):
    q = tier == "quick"
    out = []
    nmax = 3 if q else 4
    # large batches (seed C18-7: block-wise filing that reset the counts per block of 4096 rows)
    for total, k, d in ((4100, 2, 1), (5000, 1, 2)) if q else ((4100, 2, 1), (5000, 2, 2), (9000, 2, 1), (20000, 1, 2)):
        out.append(Job(f"kdq-bulk-{total}rows-{k}sym-{d}d", "checks.c18:body_kdq_bulk", {"total": total, "k_sym": k, "d": d},
                       expect=("checked",), opts={"validate": 1}))
    for d in (1, 2):
        for n in range(2, nmax + 1):
            for m in range(2, nmax + 1):
                if d == 2 and n + m > (5 if q else 6):
                    continue
                for which in ("test", "reference"):
                    if which == "reference" and (m > 2 or n > 3 or (q and d == 2 and n > 2)):
                        continue  # a new tree per permutation: n=4 exceeds the job budget
                    if which == "test" and m > 3:
                        continue
                    out.append(Job(f"kdq-d{d}-n{n}-m{m}-{which}", "checks.c18:body_kdq", {"n": n, "m": m, "d": d, "which": which},
                                   expect=("checked",), opts={"validate": 1}))
    # minimum cell width in force (cutpoint_proportion_lbound > 0), coordinates in [0, 4]
    for n, which in ((3, "test"), (2, "reference")) + (() if q else ((3, "reference"),)):
        out.append(Job(f"kdq-d2-n{n}-m2-{which}-lbound", "checks.c18:body_kdq",
                       {"n": n, "m": 2, "d": 2, "which": which, "lbound": 0.5, "box": 4}, expect=("checked",),
                       opts={"validate": 1}))
    for features in (1, 2):
        for which in ("test", "reference"):
            for second in (False, True):
                if q and features == 2 and second:
                    continue
                out.append(Job(f"hdm-f{features}-{which}-second{int(second)}", "checks.c18:body_hdm",
                               {"features": features, "which": which, "second": second}, expect=("checked",),
                               opts={"validate": 1, "query_timeout_ms": 60000}))
    # a reference with an odd number of rows (none of them may get lost: which one would depend on the row order)
    out.append(Job("hdm-f1-reference-odd", "checks.c18:body_hdm", {"features": 1, "which": "reference", "second": False, "nr": 5, "stride": 37},
                   expect=("checked",), opts={"validate": 1, "query_timeout_ms": 60000}))
    for n1, n2, d in ((2, 2, 1), (3, 2, 1), (2, 2, 2)) + (() if q else ((3, 2, 2),)):
        out.append(Job(f"nnsp-{n1}x{n2}-d{d}", "checks.c18:body_nnsp", {"n1": n1, "n2": n2, "d": d}, expect=("checked",),
                       opts={"validate": 1}))
    for det in ("HDM", "KdqTreeBatch", "NNDVI"):
        for seed in (1, 2):
            out.append(Job(f"decisions-{det}-{seed}", "checks.c18:body_decisions", {"det": det, "seed": seed}, expect=("checked",),
                           opts={"validate": 1}))
        out.append(Job(f"decisions-{det}-uneven-batches", "checks.c18:body_decisions",
                       {"det": det, "seed": 3, "sizes": [3, 6, 4, 7, 5]}, expect=("checked",), opts={"validate": 1}))
    return out
