"""Shared harness helpers."""
from __future__ import annotations

import contextlib
import types

import numpy as np

from symx import core
from symx.core import Sym, SymBool, SymState, cur, is_sym
from symx.logic import b2i, between, iff, implies, ite, land, lnot, lor, state_is

DOMAIN = (None, "warning", "drift")


def in_domain(st):
    if isinstance(st, SymState):
        return True
    return st is None or (isinstance(st, str) and st in ("warning", "drift"))


def scalar(v):
    """Unwrap 0-d/1-element object arrays produced by numpy around proxies."""
    if isinstance(v, np.ndarray):
        if v.size != 1:
            raise ValueError(f"expected one element, got shape {v.shape}")
        return v.reshape(-1)[0]
    return v


def opt_int(ctx, name, present):
    """None or a fresh symbolic int (the choice is part of the job cfg)."""
    return ctx.int(name) if present else None


def is_none(v):
    return v is None


def rec_ok_range(rec, lo, hi):
    """rec is None or lo <= rec <= hi"""
    if rec is None:
        return True
    return between(lo, rec, hi)


@contextlib.contextmanager
def rebind(module, **names):
    """Temporarily rebind module-level globals of a menelaus module (no source edit)."""
    saved = {}
    missing = object()
    for k, v in names.items():
        saved[k] = module.__dict__.get(k, missing)
        module.__dict__[k] = v
    try:
        yield
    finally:
        for k, v in saved.items():
            if v is missing:
                module.__dict__.pop(k, None)
            else:
                module.__dict__[k] = v


def obj_array(rows):
    """2-D object array from a list of lists of proxies/numbers."""
    a = np.empty((len(rows), len(rows[0]) if rows else 0), dtype=object)
    for i, r in enumerate(rows):
        for j, v in enumerate(r):
            a[i, j] = v
    return a


def fresh_real(name="v"):
    return cur().real(name)


def fresh_bool(name="b"):
    return cur().bool(name)


class Recorder:
    """Records calls (name, args) made to stubs on the current path."""

    def __init__(self):
        self.calls = []

    def add(self, name, *args, **kw):
        self.calls.append((name, args, kw))

    def named(self, name):
        return [c for c in self.calls if c[0] == name]


def full_state(obj, skip=()):
    """Reflective snapshot of an object's __dict__ (for complete-state comparison)."""
    out = {}
    for k, v in vars(obj).items():
        if k in skip:
            continue
        out[k] = v
    return out


def values_equal(ctx, a, b):
    """Structural equality of two state values as a SymBool/bool.

    Handles proxies, numbers, None, strings, lists/tuples, dicts, ndarrays and
    pandas frames of proxies (compared cell by cell)."""
    import pandas as pd

    if a is None or b is None:
        return a is None and b is None
    if isinstance(a, SymState) or isinstance(b, SymState):
        if isinstance(a, SymState) and isinstance(b, SymState):
            return a == b
        return state_is(a, b) if isinstance(a, SymState) else state_is(b, a)
    if isinstance(a, str) or isinstance(b, str):
        return isinstance(a, str) and isinstance(b, str) and a == b
    if isinstance(a, pd.Index) or isinstance(b, pd.Index):
        return isinstance(a, pd.Index) and isinstance(b, pd.Index) and bool(a.equals(b))
    if isinstance(a, (pd.DataFrame, pd.Series)):
        if not isinstance(b, type(a)):
            return False
        if isinstance(a, pd.DataFrame) and not a.columns.equals(b.columns):
            return False
        a, b = a.to_numpy(), b.to_numpy()
    if isinstance(a, np.ndarray) or isinstance(b, np.ndarray):
        a, b = np.asarray(a, dtype=object), np.asarray(b, dtype=object)
        if a.shape != b.shape:
            return False
        return land(*[values_equal(ctx, x, y) for x, y in zip(a.reshape(-1), b.reshape(-1))])
    if isinstance(a, (list, tuple)):
        if not isinstance(b, (list, tuple)) or len(a) != len(b):
            return False
        return land(*[values_equal(ctx, x, y) for x, y in zip(a, b)])
    if isinstance(a, dict):
        if not isinstance(b, dict) or list(a.keys()) != list(b.keys()):
            if not isinstance(b, dict) or set(map(repr, a.keys())) != set(map(repr, b.keys())):
                return False
        return land(*[values_equal(ctx, a[k], b[k]) for k in a])
    if is_sym(a) or is_sym(b) or core._is_number(a) or core._is_number(b):
        if isinstance(a, (bool, np.bool_)) and isinstance(b, (bool, np.bool_)):
            return bool(a) == bool(b)
        if isinstance(a, (float, np.floating)) and isinstance(b, (float, np.floating)) and np.isnan(a) and np.isnan(b):
            return True  # the same (non-)value on both sides
        return ctx.eq(a, b)
    if callable(a) and callable(b):
        return True
    if type(a) is not type(b):
        return False
    if hasattr(a, "__dict__"):
        return states_equal(ctx, vars(a), vars(b))
    return a == b


def states_equal(ctx, sa, sb, skip=()):
    ks = [k for k in sa if k not in skip]
    if set(ks) != {k for k in sb if k not in skip}:
        return False
    return land(*[values_equal(ctx, sa[k], sb[k]) for k in ks])


def first_diff(ctx, sa, sb, skip=()):
    """For diagnostics: the keys whose values may differ (as a list of names)."""
    out = []
    for k in sa:
        if k in skip:
            continue
        if k not in sb:
            out.append(k + " (missing)")
            continue
        e = values_equal(ctx, sa[k], sb[k])
        if isinstance(e, SymBool):
            if ctx.symbolic and ctx.feasible(lnot(e)):
                out.append(k)
        elif not e:
            out.append(k)
    return out
