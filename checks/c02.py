"""C02 - after a drift (or a new reference) a detector starts from a clean slate.

R+S: detector A is put in an arbitrary invariant state with drift_state
"drift", F is newly constructed with the same parameters plus the documented
carry-over; both get the same input; z3 proves the *complete* attribute
dictionaries equal (enumerated reflectively) modulo the epoch offset of the
total counter / retraining indices.  Equal state after one step implies equal
outputs for ever (update is a function of state and input).

B+R: histories from the public constructor; at every reported drift a fresh
twin is started on the documented carry-over and compared after every later
update; set_reference is injected at every position of a batch history.
"""
import numpy as np

from symx.core import Sym, SymBool, sym_max
from symx.logic import b2i, between, iff, implies, ite, land, lnot, lor, state_is
from symx.run import Job
from specs.sequential_tests import mean_of, pop_std_of

from . import stubs
from .common import rebind, scalar, values_equal
from .drivers import DRIVERS

PROPERTY = "C02"
ENCODED = [
    "menelaus.concept_drift.ddm:DDM.update", "menelaus.concept_drift.ddm:DDM.reset",
    "menelaus.concept_drift.eddm:EDDM.update", "menelaus.concept_drift.eddm:EDDM.reset",
    "menelaus.concept_drift.stepd:STEPD.update", "menelaus.concept_drift.stepd:STEPD.reset",
    "menelaus.change_detection.page_hinkley:PageHinkley.update", "menelaus.change_detection.page_hinkley:PageHinkley.reset",
    "menelaus.change_detection.cusum:CUSUM.update", "menelaus.change_detection.cusum:CUSUM.reset",
    "menelaus.data_drift.kdq_tree:KdqTreeStreaming.update", "menelaus.data_drift.kdq_tree:KdqTreeStreaming.reset",
    "menelaus.data_drift.kdq_tree:KdqTreeBatch.update", "menelaus.data_drift.kdq_tree:KdqTreeBatch.set_reference",
    "menelaus.data_drift.kdq_tree:KdqTreeDetector._evaluate_kdqtree", "menelaus.data_drift.kdq_tree:KdqTreeDetector._inner_set_reference",
    "menelaus.data_drift.histogram_density_method:HistogramDensityMethod.update",
    "menelaus.data_drift.histogram_density_method:HistogramDensityMethod.reset",
    "menelaus.data_drift.histogram_density_method:HistogramDensityMethod.set_reference",
    "menelaus.data_drift.histogram_density_method:HistogramDensityMethod._adaptive_threshold",
    "menelaus.data_drift.nndvi:NNDVI.update", "menelaus.data_drift.nndvi:NNDVI.set_reference",
]
BOUNDS = {
    "quick": "R+S one step from an arbitrary drifted state: DDM, EDDM, PageHinkley (unbounded symbolic parameters), STEPD "
             "(window contents L<=2), CUSUM (burn_in in {2,3}, since in {burn_in+1, burn_in+2}, 0/2 older buffered "
             "observations). B+R histories with a twin per drift: DDM/EDDM/STEPD N<=8, PageHinkley N<=4, CUSUM N<=burn_in+4, "
             "KdqTreeStreaming w in {1,2} N<=3w+4, KdqTreeBatch N<=4, HDDDM/CDBD detect_batch in {1,2,3} N<=4(5), NNDVI N<=4; "
             "set_reference at every position k<=3 of a batch history (HDDDM, CDBD, KdqTreeBatch, NNDVI)",
    "thorough": "as quick with STEPD L<=3, label detectors N<=11, PageHinkley N<=5, kdq w<=3, HDM N<=6, set_reference k<=4",
}
OUTSIDE = ("histories longer than the bounds for the B runs; IEEE rounding in the S steps (exact reals); attributes that exist "
           "only on the drifted detector and not on a fresh one (e.g. KdqTreeBatch.ref_data, HDM.feature_info) are compared "
           "through their effect on later states in the B runs, not directly")
ASSUMPTIONS = [
    "numeric library results are deterministic functions of the contents of their arguments (memoised fresh symbols), shared "
    "by the running detector and its twin: the 'identical seed schedule' of the property",
    "kdq: partitioner stub (divergence a function of build data and accumulated test data); HDM: distances via the public "
    "divergence= hook as a function of the two histograms, bootstrap epsilon a function of (reference, subsets, ranges), real "
    "np.histogram on concrete placeholder batches; NNDVI: partitioner/threshold stubs as functions of their arguments",
    "S steps: pre-state satisfies the representation invariant of C01",
]
TRUSTED = ["z3", "CPython/numpy/pandas executing the real code"]

SHIFT_SCALARS = {"_total_samples", "_total_batches", "_lambda"}
SHIFT_RECS = {"_retraining_recs"}
EPOCH_DICTS = {"distances", "epsilon_values", "thresholds"}
TAIL_LISTS = {"_stream"}
# documented public outputs that a fresh detector may not have created yet: absent counts as None
OPTIONAL_OUTPUTS = {"feature_epsilons"}


def _shift_eq(ctx, a, f, off):
    if a is None or f is None:
        return a is None and f is None
    return ctx.eq(a, f + off)


def equiv_state(ctx, A, F, off, ignore=()):
    """Every attribute of the fresh twin F has an equal value on A (indices
    shifted by the epoch offset)."""
    sa, sf = vars(A), vars(F)
    conds = []
    bad = []
    for k, fv in sf.items():
        if k in ignore or callable(fv) and not hasattr(fv, "__dict__"):
            continue
        if k not in sa:
            return False, [k + " (missing)"]
        av = sa[k]
        if k in SHIFT_SCALARS:
            c = _shift_eq(ctx, av, fv, off)
        elif k in SHIFT_RECS:
            c = land(*[_shift_eq(ctx, x, y, off) for x, y in zip(list(av), list(fv))]) if len(av) == len(fv) else False
        elif k in EPOCH_DICTS:
            cur_epoch = {kk - off: v for kk, v in av.items() if kk > off}
            c = values_equal(ctx, cur_epoch, fv)
        elif k in TAIL_LISTS:
            n = len(fv)
            c = values_equal(ctx, list(av[len(av) - n:]) if n else [], list(fv)) if len(av) >= n else False
        else:
            c = values_equal(ctx, av, fv)
        if c is False:
            bad.append(k)
        conds.append(c)
    for k in OPTIONAL_OUTPUTS:
        if k in sa and k not in sf and k not in ignore and sa[k] is not None:
            bad.append(k + " (stale: a fresh detector has none)")
            conds.append(False)
    return land(*conds), bad


def _prove_equiv(ctx, A, F, off, label, ignore=()):
    c, bad = equiv_state(ctx, A, F, off, ignore)
    ctx.prove(c, label, detail={"attributes_differing_concretely": bad})


# --------------------------------------------------------------------------
# R+S: one step from an arbitrary drifted state


def body_ddm_drifted(ctx, r0):
    from menelaus.concept_drift import DDM

    par = dict(n_threshold=ctx.int("n_threshold"), warning_scale=ctx.real("warning_scale"), drift_scale=ctx.real("drift_scale"))
    A, F = DDM(**par), DDM(**par)
    total, since = ctx.int("total"), ctx.int("since")
    ctx.assume(land(since >= 1, since <= total))
    A._total_samples, A._samples_since_reset, A._drift_state = total, since, "drift"
    A._error_rate, A._error_std = ctx.real("p"), ctx.real("s")
    A._error_rate_min, A._error_std_min = ctx.real("p_min"), ctx.real("s_min")
    first = ctx.int("first_warning") if r0 else total - 1
    A._retraining_recs = [first, total - 1]
    yt, yp = ctx.int("y_true"), ctx.int("y_pred")
    A.update(yt, yp)
    F.update(yt, yp)
    _prove_equiv(ctx, A, F, total, "drifted-equals-fresh")
    ctx.witness("compared")


def body_eddm_drifted(ctx, r0):
    from menelaus.concept_drift import EDDM

    par = dict(n_threshold=ctx.int("n_threshold"), warning_thresh=ctx.real("warning_thresh"), drift_thresh=ctx.real("drift_thresh"))
    A, F = EDDM(**par), EDDM(**par)
    total, since = ctx.int("total"), ctx.int("since")
    ctx.assume(land(since >= 1, since <= total))
    A._total_samples, A._samples_since_reset, A._drift_state = total, since, "drift"
    A._n_errors, A._index_error_curr, A._index_error_last = ctx.int("n_errors"), ctx.int("idx_curr"), ctx.int("idx_last")
    A._dist_mean, A._dist_std, A._max_numerator = ctx.real("mean"), ctx.real("dev"), ctx.real("max_level")
    A._test_statistic = ctx.real("test_statistic")
    first = ctx.int("first_warning") if r0 else total - 1
    A._retraining_recs = [first, total - 1]
    yt, yp = ctx.int("y_true"), ctx.int("y_pred")
    A.update(yt, yp)
    F.update(yt, yp)
    _prove_equiv(ctx, A, F, total, "drifted-equals-fresh")
    ctx.witness("compared")


def body_stepd_drifted(ctx, L):
    from menelaus.concept_drift import stepd as M

    par = dict(window_size=ctx.int("window_size"), alpha_warning=ctx.real("alpha_warning"), alpha_drift=ctx.real("alpha_drift"))
    ctx.assume(par["window_size"] >= 1)
    A, F = M.STEPD(**par), M.STEPD(**par)
    total, since = ctx.int("total"), ctx.int("since")
    ctx.assume(land(since >= 1, since <= total))
    A._total_samples, A._samples_since_reset, A._drift_state = total, since, "drift"
    A._window = [ctx.int(f"w{i}") for i in range(L)]
    A._s, A._r = ctx.int("s"), ctx.int("r")
    A._test_statistic, A._test_p = ctx.real("stat"), ctx.real("pval")
    A._retraining_recs = np.array([ctx.int("run_start"), total - 1], dtype=object)
    yt, yp = ctx.int("y_true"), ctx.int("y_pred")
    with rebind(M, scipy=stubs.fake_scipy_norm(uf=True)):
        A.update(yt, yp)
        F.update(yt, yp)
    _prove_equiv(ctx, A, F, total, "drifted-equals-fresh")
    ctx.witness("compared")


def body_ph_drifted(ctx, direction):
    from menelaus.change_detection import PageHinkley

    par = dict(delta=ctx.real("delta"), threshold=ctx.real("threshold"), burn_in=ctx.int("burn_in"), direction=direction)
    A, F = PageHinkley(**par), PageHinkley(**par)
    total, since = ctx.int("total"), ctx.int("since")
    ctx.assume(land(since >= 1, since <= total))
    A._total_samples, A._samples_since_reset, A._drift_state = total, since, "drift"
    A._mean, A._sum, A._min, A._max = ctx.real("mean"), ctx.real("sum"), ctx.real("min"), ctx.real("max")
    for name in ("_change_scores", "_page_hinkley_values", "_page_hinkley_differences", "_theta_threshold",
                 "_drift_detected", "_maxes", "_mins", "_means"):
        setattr(A, name, [ctx.real("old" + name)])
    x = ctx.real("x")
    A.update(x)
    F.update(x)
    _prove_equiv(ctx, A, F, total, "drifted-equals-fresh")
    ok = values_equal(ctx, A.to_dataframe().to_numpy(), F.to_dataframe().to_numpy())
    ctx.prove(ok, "drifted-dataframe-equals-fresh")
    ctx.witness("compared")


def body_cusum_drifted(ctx, burn, direction, since, older):
    from menelaus.change_detection import cusum as M

    delta, thr = ctx.real("delta"), ctx.real("threshold")
    A = M.CUSUM(target=ctx.real("old_target"), sd_hat=ctx.real("old_sd"), burn_in=burn, delta=delta, threshold=thr,
                direction=direction)
    total = ctx.int("total")
    ctx.assume(total >= since + older)
    stream = [ctx.real(f"obs{i}") for i in range(older + since)]
    A._stream = [np.array([[v]], dtype=object) for v in stream]
    A._upper_bound = [0] + [ctx.real(f"uh{i}") for i in range(since)]
    A._lower_bound = [0] + [ctx.real(f"ul{i}") for i in range(since)]
    A._total_samples, A._samples_since_reset, A._drift_state = total, since, "drift"
    # documented carry-over: mean and (population) standard deviation of the last burn_in observations
    recent = stream[-burn:]
    F = M.CUSUM(target=mean_of(recent), sd_hat=pop_std_of(recent), burn_in=burn, delta=delta, threshold=thr,
                direction=direction)
    x = ctx.real("x")
    with rebind(M, max=sym_max):
        A.update(x)
        F.update(x)
    _prove_equiv(ctx, A, F, total, "drifted-equals-fresh")
    ctx.witness("compared")


# --------------------------------------------------------------------------
# B+R: histories with a twin per drift


def body_twin_history(ctx, det, N, cfg, setref_at=None):
    Drv = DRIVERS[det]
    with Drv(ctx, **cfg) as drv:
        A = drv.det
        batch = drv.kind == "batch"
        needs_ref = det in ("HDM", "NNDVI") or (det == "KdqTreeBatch" and cfg.get("set_ref", True))
        if needs_ref:
            A.set_reference(drv.fresh_batch("ref"))
        twins = []  # (twin, offset, origin)
        for i in range(N):
            if setref_at is not None and i == setref_at:
                R = drv.fresh_batch("newref")
                A.set_reference(R)
                F = drv.twin()
                F.set_reference(R)
                off = getattr(A, drv.total_attr) - getattr(F, drv.total_attr)
                twins = [(F, off, "set_reference")]
                _prove_equiv(ctx, A, F, off, "set_reference-equals-fresh")
                ctx.witness("set_reference")
            was_drift = state_is(A.drift_state, "drift") is True
            if was_drift:
                # start a fresh twin on the documented carry-over
                off = getattr(A, drv.total_attr)
                if det == "CUSUM":
                    recent = [scalar(v) for v in A._stream[-cfg["burn_in"]:]]
                    p = dict(drv.params)
                    p["target"], p["sd_hat"] = mean_of(recent), pop_std_of(recent)
                    F = drv.M.CUSUM(**p)
                elif batch:
                    F = drv.twin()
                    F.set_reference(drv.inputs[-1])  # the drifted batch becomes the reference
                else:
                    F = drv.twin()
                twins.append((F, off, f"drift@{i}"))
                ctx.witness("twin-started")
            try:
                x = drv.step(i)
            except ValueError as e:
                if det == "CUSUM" and "Standard deviation is 0" in str(e):
                    return
                raise
            for F, off, origin in twins:
                if state_is(F.drift_state, "drift") is True and False:
                    pass
                drv.apply(F, x)
                _prove_equiv(ctx, A, F, off, "running-equals-fresh-twin", ignore=cfg.get("ignore", ()))
                ctx.witness("compared")
            # a twin that has itself alarmed keeps being compared (both restart together)


def jobs(tier):
    q = tier == "quick"
    out = []
    for r0 in (0, 1):
        out.append(Job(f"ddm-drifted-first{r0}", "checks.c02:body_ddm_drifted", {"r0": r0}, expect=("compared",)))
        out.append(Job(f"eddm-drifted-first{r0}", "checks.c02:body_eddm_drifted", {"r0": r0}, expect=("compared",)))
    for L in range(0, 3 if q else 4):
        out.append(Job(f"stepd-drifted-L{L}", "checks.c02:body_stepd_drifted", {"L": L}, expect=("compared",)))
    for direction in ("positive", "negative"):
        out.append(Job(f"ph-drifted-{direction}", "checks.c02:body_ph_drifted", {"direction": direction}, expect=("compared",)))
    for burn in (2, 3):
        for direction in (None, "positive", "negative"):
            for since in (burn + 1, burn + 2):
                for older in (0, 2):
                    if q and (direction is not None and older == 0):
                        continue
                    out.append(Job(f"cusum-drifted-b{burn}-{direction}-s{since}-o{older}", "checks.c02:body_cusum_drifted",
                                   {"burn": burn, "direction": direction, "since": since, "older": older},
                                   expect=("compared",)))
    # documented carry-over when the last burn_in observations are all equal: mean = that level, deviation exactly 0
    # (divisions by it are havoc'd) - the harness body is shared with C04
    for burn in (2, 3):
        out.append(Job(f"cusum-drifted-constant-window-b{burn}", "checks.c04:body_cusum_reestimate_constant",
                       {"burn": burn, "since": burn + 1}, expect=("constant-window",),
                       opts={"div_policy": "havoc_zero", "validate": 1}))
    # histories
    NL = 8 if q else 11
    for det, cfgs in (("DDM", [{"n_threshold": 1}, {"n_threshold": 2}]), ("EDDM", [{"n_threshold": 1}, {"n_threshold": 2}]),
                      ("STEPD", [{"window_size": 1}, {"window_size": 2}])):
        for cfg in cfgs:
            out.append(Job(f"{det.lower()}-twins-{list(cfg.values())[0]}", "checks.c02:body_twin_history",
                           {"det": det, "N": NL, "cfg": cfg}, expect=("twin-started", "compared"), opts={"validate": 1}))
    for burn in (0, 1):
        out.append(Job(f"ph-twins-b{burn}", "checks.c02:body_twin_history",
                       {"det": "PageHinkley", "N": 4 if q else 5, "cfg": {"burn_in": burn}},
                       expect=("twin-started", "compared")))
    for burn in (2,) if q else (2, 3):
        out.append(Job(f"cusum-twins-b{burn}", "checks.c02:body_twin_history",
                       {"det": "CUSUM", "N": burn + 4, "cfg": {"burn_in": burn, "target_given": True, "ite_max": True}},
                       expect=("twin-started", "compared")))
    for w in (1, 2) if q else (1, 2, 3):
        out.append(Job(f"kdqstream-twins-w{w}", "checks.c02:body_twin_history",
                       {"det": "KdqTreeStreaming", "N": 3 * w + 4 + w, "cfg": {"window_size": w}},
                       expect=("twin-started", "compared")))
    out.append(Job("kdqbatch-twins", "checks.c02:body_twin_history",
                   {"det": "KdqTreeBatch", "N": 4 if q else 5, "cfg": {}}, expect=("twin-started", "compared")))
    for db in (1, 2, 3):
        for cls, stat in (("HDDDM", "stdev"), ("CDBD", "tstat")) if q else (("HDDDM", "stdev"), ("HDDDM", "tstat"), ("CDBD", "stdev"), ("CDBD", "tstat")):
            cfg = {"cls": cls, "detect_batch": db, "statistic": stat, "features": 2 if cls == "HDDDM" else 1}
            out.append(Job(f"hdm-twins-{cls}-db{db}-{stat}", "checks.c02:body_twin_history",
                           {"det": "HDM", "N": (4 if q else 6) + (1 if db == 3 else 0), "cfg": cfg},
                           expect=("twin-started", "compared")))
            for k in range(0, 4 if q else 5):
                out.append(Job(f"hdm-setref-{cls}-db{db}-{stat}-k{k}", "checks.c02:body_twin_history",
                               {"det": "HDM", "N": k + (2 if q else 3), "cfg": cfg, "setref_at": k},
                               expect=("set_reference", "compared")))
    out.append(Job("nndvi-twins", "checks.c02:body_twin_history", {"det": "NNDVI", "N": 4 if q else 5, "cfg": {}},
                   expect=("twin-started", "compared")))
    for k in range(0, 4 if q else 5):
        out.append(Job(f"nndvi-setref-k{k}", "checks.c02:body_twin_history",
                       {"det": "NNDVI", "N": k + 2, "cfg": {}, "setref_at": k}, expect=("set_reference", "compared")))
        out.append(Job(f"kdqbatch-setref-k{k}", "checks.c02:body_twin_history",
                       {"det": "KdqTreeBatch", "N": k + 2, "cfg": {}, "setref_at": k}, expect=("set_reference", "compared")))
    return out
