"""Contract stubs for compiled library code reached from menelaus modules.

Every stub is installed by rebinding a *module-level global* of the menelaus
module under test (never by editing source).  Each stub documents the contract
it assumes; harnesses list the stubs they install in their ASSUMPTIONS.
"""
from __future__ import annotations

import types

import numpy as np
import z3

from symx import core
from symx.core import Sym, SymBool, cur, is_sym
from symx.logic import land


def _any_sym(*xs):
    for x in xs:
        if is_sym(x):
            return True
        if isinstance(x, np.ndarray) and x.dtype == object:
            if any(is_sym(e) for e in x.reshape(-1)):
                return True
        if isinstance(x, (list, tuple)) and any(is_sym(e) for e in x):
            return True
    return False


def fake_scipy_norm(uf=True):
    """``scipy`` stand-in for stepd: ``scipy.stats.norm.cdf(x, 0, 1)``.

    Contract: Phi is a function of x with range [0, 1], monotone (instantiated
    pairwise on the arguments that occur on the path).  On concrete arguments
    the real scipy is called."""
    import scipy.stats as real

    def cdf(x, loc=0, scale=1):
        c = cur()
        if not c.symbolic:
            # concrete replay: constant stub returning the model's value, if the
            # model assigned one; otherwise the real library
            if c.has("Phi"):
                c.stubbed.append("Phi")
                return c.real("Phi")
            return real.norm.cdf(x, loc, scale)
        if not _any_sym(x):
            return real.norm.cdf(x, loc, scale)
        # uf=False: an arbitrary value in [0,1] per call (weaker contract, keeps
        # the path condition in pure nonlinear real arithmetic)
        r = c.real("Phi")
        if uf:
            c.assume_unchecked(r == c.uf1("PhiF", x))
        c.assume_unchecked(land(r >= 0, r <= 1))
        return r

    norm = types.SimpleNamespace(cdf=cdf, ppf=real.norm.ppf, fit=real.norm.fit)
    stats = types.SimpleNamespace(norm=norm, entropy=real.entropy, t=real.t)
    return types.SimpleNamespace(stats=stats)


def object_zeros(shape, dtype=None):
    """``numpy.zeros`` stand-in for adwin: same shape, all 0, object dtype so
    that bucket arrays can hold proxies."""
    a = np.empty(shape, dtype=object)
    a[...] = 0
    return a


class NpShim:
    """A numpy look-alike that forwards everything to numpy except the names
    overridden by a harness (installed as the module-level ``np`` of one
    menelaus module)."""

    def __init__(self, **over):
        self.__dict__["_over"] = over

    def __getattr__(self, k):
        o = self.__dict__["_over"]
        if k in o:
            return o[k]
        return getattr(np, k)


def np_mean_std_havoc():
    """np.mean / np.std return fresh reals (std >= 0): used where the value of
    the statistic is irrelevant to the obligation (lifecycle contract)."""

    def mean(a, *args, **kw):
        return cur().real("np_mean")

    def std(a, *args, **kw):
        c = cur()
        r = c.real("np_std")
        c.assume_unchecked(r >= 0)
        return r

    return NpShim(mean=mean, std=std)
