"""Contract stubs for compiled library code reached from menelaus modules.

Every stub is installed by rebinding a *module-level global* of the menelaus
module under test (never by editing source).  Each stub documents the contract
it assumes; harnesses list the stubs they install in their ASSUMPTIONS.
"""
from __future__ import annotations

import types

import numpy as np
import z3

from symx import core
from symx.core import Sym, SymBool, cur, is_sym
from symx.logic import land


def _any_sym(*xs):
    for x in xs:
        if is_sym(x):
            return True
        if isinstance(x, np.ndarray) and x.dtype == object:
            if any(is_sym(e) for e in x.reshape(-1)):
                return True
        if isinstance(x, (list, tuple)) and any(is_sym(e) for e in x):
            return True
    return False


def fake_scipy_norm(uf=True, congruence=False):
    """``scipy`` stand-in for stepd: ``scipy.stats.norm.cdf(x, 0, 1)``.

    Contract: Phi is a function of x with range [0, 1], monotone (instantiated
    pairwise on the arguments that occur on the path).  On concrete arguments
    the real scipy is called."""
    import scipy.stats as real

    seen = []

    def cdf(x, loc=0, scale=1):
        c = cur()
        if not (loc == 0 and scale == 1):
            # argument obligation: the two-proportion statistic is referred to the *standard* normal distribution
            raise AssertionError(f"norm.cdf called with loc={loc!r}, scale={scale!r}: the standard normal is documented")
        if not c.symbolic:
            # concrete replay: constant stub returning the model's value, if the
            # model assigned one; otherwise the real library
            if congruence:
                for (x0, r0) in seen:
                    if abs(float(x0) - float(x)) <= 1e-9 * max(1.0, abs(float(x))) or (x0 != x0 and x != x):
                        return r0
            if c.has("Phi"):
                c.stubbed.append("Phi")
                r = c.real("Phi")
            else:
                r = real.norm.cdf(x, loc, scale)
            if congruence:
                seen.append((x, r))
            return r
        if not _any_sym(x):
            return real.norm.cdf(x, loc, scale)
        # uf=False: an arbitrary value in [0,1] per call (weaker contract, keeps
        # the path condition in pure nonlinear real arithmetic)
        if congruence:
            # function model without an uninterpreted symbol (keeps queries in pure nonlinear real arithmetic):
            # an argument proved equal to an earlier one gets the earlier result, anything else a fresh value
            xz = x if isinstance(x, Sym) else Sym(core.to_z3_num(x))
            for (x0, r0) in seen:
                if x0.z.eq(xz.z) or not c.feasible(x0 != xz):
                    return r0
            r = c.real("Phi")
            seen.append((xz, r))
            c.assume_unchecked(land(r >= 0, r <= 1))
            return r
        r = c.real("Phi")
        if uf:
            c.assume_unchecked(r == c.uf1("PhiF", x))
        c.assume_unchecked(land(r >= 0, r <= 1))
        return r

    norm = types.SimpleNamespace(cdf=cdf, ppf=real.norm.ppf, fit=real.norm.fit)
    stats = types.SimpleNamespace(norm=norm, entropy=real.entropy, t=real.t)
    return types.SimpleNamespace(stats=stats)


def object_zeros(shape, dtype=None):
    """``numpy.zeros`` stand-in for adwin: same shape, all 0, object dtype so
    that bucket arrays can hold proxies."""
    a = np.empty(shape, dtype=object)
    a[...] = 0
    return a


class NpShim:
    """A numpy look-alike that forwards everything to numpy except the names
    overridden by a harness (installed as the module-level ``np`` of one
    menelaus module)."""

    def __init__(self, **over):
        self.__dict__["_over"] = over

    def __getattr__(self, k):
        o = self.__dict__["_over"]
        if k in o:
            return o[k]
        return getattr(np, k)


def np_mean_std_havoc():
    """np.mean / np.std return fresh reals (std >= 0): used where the value of
    the statistic is irrelevant to the obligation (lifecycle contract)."""

    def mean(a, *args, **kw):
        return cur().real("np_mean")

    def std(a, *args, **kw):
        c = cur()
        r = c.real("np_std")
        c.assume_unchecked(r >= 0)
        return r

    return NpShim(mean=mean, std=std)


def keyof(obj):
    """Canonical, hashable description of a stub argument (content, not identity);
    proxies are described by their simplified term."""
    import pandas as pd

    if isinstance(obj, (Sym, SymBool)):
        return ("sym", z3.simplify(obj.z).sexpr())
    if isinstance(obj, (pd.DataFrame, pd.Series)):
        return ("pd", keyof(obj.to_numpy()))
    if isinstance(obj, np.ndarray):
        return ("arr", obj.shape, tuple(keyof(e) for e in obj.reshape(-1)))
    if isinstance(obj, (list, tuple)):
        return ("seq", tuple(keyof(e) for e in obj))
    if isinstance(obj, dict):
        return ("dict", tuple((keyof(k), keyof(v)) for k, v in obj.items()))
    if isinstance(obj, (np.floating, float)):
        return ("f", float(obj))
    if isinstance(obj, (np.integer, int, bool, np.bool_)):
        return ("i", int(obj))
    if obj is None or isinstance(obj, str):
        return obj
    return ("obj", repr(obj))


class Memo:
    """Deterministic stub results: the same arguments give the same fresh
    symbol (an uninterpreted function of the argument *contents*), so that two
    runs that pass equal arguments observe equal library results -- 'the same
    seed schedule' of the relational properties."""

    def __init__(self):
        self.table = {}
        self.calls = []

    def get(self, fname, args, make):
        k = (fname, keyof(args))
        if k not in self.table:
            self.table[k] = make()
        self.calls.append((fname, args, self.table[k]))
        return self.table[k]


class MonotoneQuantile:
    """quantile-like library results: a fresh real per (data, level) that is
    non-decreasing in the level for the same data (the only property of
    np.quantile / np.percentile / norm.ppf / t.ppf the monotonicity lemmas use)."""

    def __init__(self, name="quantile"):
        self.name = name
        self.by_data = {}

    def __call__(self, data, level):
        c = cur()
        k = keyof(data)
        lst = self.by_data.setdefault(k, [])
        lk = keyof(level)
        for (ok, ol, orr) in lst:
            if ok == lk:
                return orr
        if not c.symbolic and c.has(self.name):
            c.stubbed.append(self.name)
        r = c.real(self.name)
        for (ok, ol, orr) in lst:
            c.assume_unchecked(land(implies_(ol <= level, orr <= r), implies_(level <= ol, r <= orr)))
        lst.append((lk, level, r))
        return r


def implies_(a, b):
    from symx.logic import implies

    return implies(a, b)
