"""C08 - the kdq-tree partitions space consistently and conserves counts.

The real KDQTreePartitioner.build / fill / reset / leaf_counts / kl_distance /
to_plotly_dataframe run on object arrays of *symbolic points*: coincident
points and points exactly on a midpoint are therefore covered (the solver
chooses them).  np.min / np.ptp / np.unique(...).size inside the module are
rebound to non-forking ite chains, so that only the `<= mid` / `> mid` masks and
the stop rule fork.
"""
import numpy as np
import pandas as pd
import z3

from symx import core
from symx.core import Sym, SymBool, cur, sym_max, sym_min
from symx.logic import b2i, between, iff, implies, ite, land, lnot, lor
from symx.run import Job

from . import stubs
from .common import obj_array, rebind

PROPERTY = "C08"
ENCODED = [
    "menelaus.partitioners.KDQTreePartitioner:KDQTreePartitioner.build", "menelaus.partitioners.KDQTreePartitioner:KDQTreePartitioner.fill",
    "menelaus.partitioners.KDQTreePartitioner:KDQTreePartitioner.reset", "menelaus.partitioners.KDQTreePartitioner:KDQTreePartitioner.leaf_counts",
    "menelaus.partitioners.KDQTreePartitioner:KDQTreePartitioner.kl_distance",
    "menelaus.partitioners.KDQTreePartitioner:KDQTreePartitioner._distn_from_counts",
    "menelaus.partitioners.KDQTreePartitioner:KDQTreePartitioner.to_plotly_dataframe",
    "menelaus.partitioners.KDQTreePartitioner:KDQTreePartitioner._calculate_kss",
    "menelaus.partitioners.KDQTreePartitioner:KDQTreeNode.build", "menelaus.partitioners.KDQTreePartitioner:KDQTreeNode.fill",
    "menelaus.partitioners.KDQTreePartitioner:KDQTreeNode.reset", "menelaus.partitioners.KDQTreePartitioner:KDQTreeNode.as_flattened_array",
]
BOUNDS = {
    "quick": "build: n<=4 symbolic points in 1-D and 2-D (n=3 in 3-D), count_ubound in {1,2}; fill: <=2 calls of <=2 symbolic points under "
             "two ids with and without reset; _distn_from_counts: k<=4 symbolic counts",
    "thorough": "n<=5 (1-D), fill calls of <=3 points",
}
OUTSIDE = ("non-negativity / zero-iff-equal of the KL divergence itself (scipy.stats.entropy: recorded arguments only); larger "
           "point sets; cutpoint_proportion_lbound > 0 (the minimum cell size is int()-truncated: only lbound=0 is explored)")
ASSUMPTIONS = [
    "np.min / np.ptp / np.unique(...).size of the partitioner module are exact non-forking ite encodings (validated against "
    "numpy on concrete arrays at the start of every run); scipy.stats.entropy is a recording stub",
    "points are exact reals",
]
TRUSTED = ["z3", "numpy boolean-mask indexing on object arrays", "pandas DataFrame.from_dict/apply"]


class _Uniq:
    def __init__(self, size):
        self.size = size


def _np_shim():
    def _only_plain(what, a, args, kw):
        # the look-alikes model the forms the library uses; anything else is reported as inconclusive, never guessed
        arr = np.asarray(a, dtype=object)
        ok = not args and (not kw or (set(kw) == {"axis"} and (kw["axis"] is None or (kw["axis"] == 0 and arr.ndim == 1))))
        if not ok:
            raise core.Inconclusive(f"{what} look-alike: unsupported arguments {args!r} {kw!r}")

    def amin(a, *args, **kw):
        _only_plain("np.min", a, args, kw)
        a = np.asarray(a, dtype=object).reshape(-1)
        return sym_min(*list(a)) if len(a) > 1 else a[0]

    def ptp(a, axis=None, **kw):
        _only_plain("np.ptp", a, (), kw)
        a = np.asarray(a, dtype=object)
        if axis is not None and a.ndim == 2:
            lanes = a if axis == 1 else a.T
            out = np.empty(len(lanes), dtype=object)
            for i, lane in enumerate(lanes):
                out[i] = ptp(lane)
            return out
        a = a.reshape(-1)
        if len(a) == 1:
            return a[0] - a[0]
        return sym_max(*list(a)) - sym_min(*list(a))

    def unique(a, *args, **kw):
        if args or kw:
            raise core.Inconclusive(f"np.unique look-alike: unsupported arguments {args!r} {kw!r}")
        flat = list(np.asarray(a, dtype=object).reshape(-1))
        size = 0
        for i, x in enumerate(flat):
            first = land(*[lnot(x == y) for y in flat[:i]]) if i else True
            size = size + b2i(first)
        return _Uniq(size)

    return stubs.NpShim(min=amin, ptp=ptp, unique=unique)


def validate_shims():
    shim = _np_shim()
    rs = np.random.RandomState(3)
    for _ in range(20):
        a = rs.randint(0, 4, size=(rs.randint(1, 5), rs.randint(1, 3))).astype(float)
        assert shim.min(a[:, 0]) == np.min(a[:, 0])
        assert shim.ptp(a[:, 0]) == np.ptp(a[:, 0])
        assert shim.unique(a).size == np.unique(a).size
    return True


def _points(ctx, tag, n, d):
    return obj_array([[ctx.real(f"{tag}{i}_{j}") for j in range(d)] for i in range(n)]) if n else np.empty((0, d), dtype=object)


def _inside(p, path):
    """does point p lie in the cell described by the root path [(axis, mid, side)]?"""
    for axis, mid, side in path:
        le = p[axis] <= mid
        if bool(le) != (side == "L"):
            return False
    return True


def _walk(node, depth=0, path=()):
    """yield (node, depth, path) for every node, pre-order"""
    if node is None:
        return
    yield node, depth, path
    if node.axis is not None:
        yield from _walk(node.left, depth + 1, path + ((node.axis, node.midpoint_at_axis, "L"),))
        yield from _walk(node.right, depth + 1, path + ((node.axis, node.midpoint_at_axis, "R"),))


def _check_tree(ctx, part, pts, d, ub, tree_id="build", label_prefix="build"):
    nodes = list(_walk(part.node))
    n = len(pts)
    leaves_seen = []
    for node, depth, path in nodes:
        mine = [p for p in pts if _inside(p, path)]
        cnt = node.num_samples_in_compared_subtrees.get(tree_id, 0)
        ctx.prove(cnt == len(mine), f"{label_prefix}-count-is-number-of-points-in-cell")
        if node.axis is None:
            leaves_seen.append(node)
            ctx.prove(node.left is None and node.right is None, "leaf-has-no-children")
        else:
            if tree_id == "build":
                ctx.prove(node.axis == depth % d, "split-axis-cycles-with-depth")
                vals = [p[node.axis] for p in mine]
                ctx.prove(ctx.eq(node.midpoint_at_axis * 2, sym_min(*vals) + sym_max(*vals)) if len(vals) > 1 else False,
                          "split-at-midpoint-of-range")
                ctx.prove(len(mine) > ub, "node-with-count_ubound-points-or-fewer-is-not-split")
                ctx.prove(node.left is not None and node.right is not None, "internal-node-has-two-children")
            lc = node.left.num_samples_in_compared_subtrees.get(tree_id, 0)
            rc = node.right.num_samples_in_compared_subtrees.get(tree_id, 0)
            ctx.prove(cnt == lc + rc, f"{label_prefix}-count-is-sum-of-children")
    ctx.prove(len(leaves_seen) == len(part.leaves) and all(a is b for a, b in zip(leaves_seen, part.leaves)),
              "leaves-list-is-the-leaves-in-tree-order")
    counts = part.leaf_counts(tree_id)
    if n or counts is not None:
        ctx.prove(counts is not None and sum(counts) == n, f"{label_prefix}-leaf-counts-sum-to-number-of-points")
    return nodes


def body_build(ctx, n, d, ub):
    import importlib

    M = importlib.import_module("menelaus.partitioners.KDQTreePartitioner")

    pts = _points(ctx, "p", n, d)
    with rebind(M, np=_np_shim()):
        part = M.KDQTreePartitioner(count_ubound=ub, cutpoint_proportion_lbound=0)
        part.build(pts)
        nodes = _check_tree(ctx, part, list(pts), d, ub)
        # filling the build data under another id reproduces the build counts exactly
        part.fill(pts, "again")
        for node, _, _ in nodes:
            ctx.prove(node.num_samples_in_compared_subtrees["again"] == node.num_samples_in_compared_subtrees["build"],
                      "fill-of-build-data-reproduces-build-counts")
    ctx.witness("split" if part.node.axis is not None else "single-leaf")
    if len(nodes) >= 5:
        ctx.witness("deep")


def body_fill(ctx, n, d, ub, m1, m2, reset2, same_id):
    import importlib

    M = importlib.import_module("menelaus.partitioners.KDQTreePartitioner")

    pts = _points(ctx, "p", n, d)
    q1, q2 = _points(ctx, "q", m1, d), _points(ctx, "r", m2, d)
    with rebind(M, np=_np_shim()):
        part = M.KDQTreePartitioner(count_ubound=ub, cutpoint_proportion_lbound=0)
        part.build(pts)
        part.fill(q1, "t1")
        _check_tree(ctx, part, list(q1), d, ub, "t1", "fill")
        id2 = "t1" if same_id else "t2"
        part.fill(q2, id2, reset=reset2)
        if same_id and not reset2:
            expect = list(q1) + list(q2)  # accumulates
        else:
            expect = list(q2)  # a new id, or reset requested: overwritten
        _check_tree(ctx, part, expect, d, ub, id2, "fill")
        _check_tree(ctx, part, list(pts), d, ub, "build", "build")  # the reference counts are untouched
        if not same_id:
            _check_tree(ctx, part, list(q1), d, ub, "t1", "fill")
        part.reset(value=0, tree_id=id2)
        ctx.prove(all(nd.num_samples_in_compared_subtrees[id2] == 0 for nd, _, _ in _walk(part.node)), "reset-zeroes-every-node")
    ctx.witness("filled")


def body_fill_bulk(ctx, total, k_sym, d, n_ref=40, ub=8):
    """Large samples: `total` rows (k_sym symbolic, the rest concrete) filed into a tree built on n_ref concrete
    rows: every size-dependent path of fill runs for real, the solver places the symbolic rows in every cell;
    accumulate-vs-reset with a second large sample."""
    import importlib

    M = importlib.import_module("menelaus.partitioners.KDQTreePartitioner")
    rs = np.random.RandomState(11)
    # the reference rows are concrete, so every cut point is a concrete double and only the symbolic rows fork
    ref = [list(map(float, r)) for r in np.round(rs.rand(n_ref, d) * 8, 2)]
    pts = obj_array(ref)
    rows = [[ctx.real(f"q{i}_{j}") for j in range(d)] for i in range(k_sym)]
    rows += [list(map(float, r)) for r in np.round(rs.rand(total - k_sym, d) * 8, 2)]
    q1 = obj_array(rows)
    q2 = obj_array([list(map(float, r)) for r in np.round(rs.rand(total // 2, d) * 8, 2)])
    with rebind(M, np=_np_shim()):
        part = M.KDQTreePartitioner(count_ubound=ub, cutpoint_proportion_lbound=0)
        part.build(pts)
        # (the split rule itself is decided on all-symbolic points by the build jobs; with concrete float rows in the
        # mix the midpoint is a rounded double, so only counts and membership are compared here)
        part.fill(pts, "ref-again")
        _check_tree(ctx, part, list(pts), d, ub, "ref-again", "fill")
        ctx.prove(part.leaf_counts("ref-again") == part.leaf_counts("build"), "fill-of-build-data-reproduces-build-counts")
        part.fill(q1, "t")
        _check_tree(ctx, part, list(q1), d, ub, "t", "fill")
        part.fill(q2, "t")  # accumulates
        _check_tree(ctx, part, list(q1) + list(q2), d, ub, "t", "fill")
        part.fill(q1, "t", reset=True)  # overwrites
        _check_tree(ctx, part, list(q1), d, ub, "t", "fill")
    ctx.witness("filled")


def body_distn(ctx, k):
    import importlib

    M = importlib.import_module("menelaus.partitioners.KDQTreePartitioner")

    counts = [ctx.int(f"c{i}") for i in range(k)]
    for c in counts:
        ctx.assume(c >= 0)
    hist = M.KDQTreePartitioner._distn_from_counts(counts)
    T = 0
    for c in counts:
        T = T + c
    tot = 0
    for i in range(k):
        ctx.prove(ctx.eq(hist[i] * (T + k / 2), counts[i] + 0.5), "corrected-distribution-entries")
        ctx.prove(hist[i] > 0, "corrected-distribution-positive")
        tot = tot + hist[i]
    ctx.prove(ctx.eq(tot, 1), "corrected-distribution-sums-to-one")
    ctx.witness("lemma")


def body_kl_and_plotly(ctx, n, ub, m):
    """1-D: kl_distance hands the two corrected leaf distributions to entropy, in leaf order; the plotly frame lists
    every node once with consistent parent/depth/counts and a Kulldorff statistic computed from the two-cell distributions"""
    import importlib

    M = importlib.import_module("menelaus.partitioners.KDQTreePartitioner")

    pts, q = _points(ctx, "p", n, 1), _points(ctx, "q", m, 1)
    calls = []

    def entropy(a, b):
        # recording stand-in for scipy's relative entropy: 0 for equal arguments (as the real one), otherwise a value that
        # identifies the call
        la, lb = list(np.asarray(a, dtype=object)), list(np.asarray(b, dtype=object))
        same = len(la) == len(lb) and np.allclose(np.array(la, dtype=float), np.array(lb, dtype=float))
        calls.append((la, lb, 0.0 if same else float(len(calls) + 1)))
        return calls[-1][2]

    fake_scipy = type("S", (), {"stats": type("St", (), {"entropy": staticmethod(entropy)})})
    with rebind(M, np=_np_shim(), scipy=fake_scipy):
        part = M.KDQTreePartitioner(count_ubound=ub, cutpoint_proportion_lbound=0)
        part.build(pts)
        part.fill(q, "test")
        dist = part.kl_distance("build", "test")
        c1, c2 = part.leaf_counts("build"), part.leaf_counts("test")
        k = len(c1)
        want1 = [(c + 0.5) / (sum(c1) + k / 2) for c in c1]
        want2 = [(c + 0.5) / (sum(c2) + k / 2) for c in c2]
        ctx.prove(len(calls) == 1 and dist == calls[0][2], "kl-distance-is-one-entropy-call")
        ctx.prove(np.allclose(np.array(calls[0][0], dtype=float), want1) and np.allclose(np.array(calls[0][1], dtype=float), want2),
                  "kl-distance-arguments-are-the-corrected-leaf-distributions")
        # the divergence always describes the *current* counts: compare, fill the first id again, compare again
        del calls[:]
        part.kl_distance("test", "build")
        part.fill(q, "test")
        del calls[:]
        part.kl_distance("test", "build")
        c2b = part.leaf_counts("test")
        want2b = [(c + 0.5) / (sum(c2b) + k / 2) for c in c2b]
        ctx.prove(len(calls) == 1 and np.allclose(np.array(calls[0][0], dtype=float), want2b)
                  and np.allclose(np.array(calls[0][1], dtype=float), want1),
                  "kl-distance-uses-the-current-counts-of-both-ids")
        part.fill(q, "test", reset=True)  # back to the single fill for the frame below
        # two *filled* ids against each other: every leaf takes part, also leaves that are empty under both ids (their
        # corrected mass 0.5 / (N + L/2) is part of both distributions; seed C08-8)
        r = _points(ctx, "r", 1, 1)
        part.fill(r, "other")
        del calls[:]
        d2 = part.kl_distance("test", "other")
        ct, co = part.leaf_counts("test"), part.leaf_counts("other")
        wt = [(c + 0.5) / (sum(ct) + k / 2) for c in ct]
        wo = [(c + 0.5) / (sum(co) + k / 2) for c in co]
        ctx.prove(len(calls) == 1 and d2 == calls[0][2] and len(calls[0][0]) == k and len(calls[0][1]) == k
                  and np.allclose(np.array(calls[0][0], dtype=float), wt) and np.allclose(np.array(calls[0][1], dtype=float), wo),
                  "kl-distance-of-two-filled-ids-covers-every-leaf")
        if any(a == 0 and b == 0 for a, b in zip(ct, co)):
            ctx.witness("leaf-empty-under-both-fills")
        del calls[:]
        df = part.to_plotly_dataframe("build", "test")
        nodes = list(_walk(part.node))
        ctx.prove(len(df) == len(nodes) and len(set(df["idx"])) == len(nodes), "plotly-lists-every-node-once")
        byid = {id(nd): (nd, depth) for nd, depth, _ in nodes}
        parent = {}
        for nd, depth, _ in nodes:
            if nd.axis is not None:
                parent[id(nd.left)] = id(nd)
                parent[id(nd.right)] = id(nd)
        ref_max = max(nd.num_samples_in_compared_subtrees["build"] for nd, _, _ in nodes)
        test_max = max(nd.num_samples_in_compared_subtrees.get("test", 0) for nd, _, _ in nodes)
        ok = True
        for i, row in enumerate(df.to_dict("records")):
            nd, depth = byid[row["idx"]]
            b, t = nd.num_samples_in_compared_subtrees["build"], nd.num_samples_in_compared_subtrees.get("test", 0)
            pid = row["parent_idx"]
            pid = None if pid is None or (isinstance(pid, float) and np.isnan(pid)) else int(pid)
            ok = ok and row["depth"] == depth and row["cell_count"] == b and row["count_diff"] == t - b and pid == parent.get(id(nd))
            # Kulldorff statistic: corrected divergence between the two-cell (node vs rest) distributions
            w1 = [(b + 0.5) / (ref_max + 1), (ref_max - b + 0.5) / (ref_max + 1)]
            w2 = [(t + 0.5) / (test_max + 1), (test_max - t + 0.5) / (test_max + 1)]
            made = [c for c in calls if np.allclose(np.array(c[0], dtype=float), w1) and np.allclose(np.array(c[1], dtype=float), w2)]
            if made:
                ok = ok and any(row["kss"] == c[2] for c in made)
            else:
                # no divergence computed for this node: only right when the two distributions coincide
                ok = ok and np.allclose(w1, w2) and row["kss"] == 0
        ctx.prove(ok, "plotly-rows-consistent-with-tree-and-kss-arguments")
        # any filled id can be the reference of the frame: every node is listed, also nodes whose count is 0
        del calls[:]
        df2 = part.to_plotly_dataframe("test", "build")
        ctx.prove(len(df2) == len(nodes) and len(set(df2["idx"])) == len(nodes), "plotly-lists-every-node-once (filled id as reference)")
        ok2 = True
        for row in df2.to_dict("records"):
            nd, depth = byid[row["idx"]]
            b, t = nd.num_samples_in_compared_subtrees["build"], nd.num_samples_in_compared_subtrees.get("test", 0)
            ok2 = ok2 and row["depth"] == depth and row["cell_count"] == t and row["count_diff"] == b - t
        ctx.prove(ok2, "plotly-rows-consistent-with-tree (filled id as reference)")
        if any(nd.num_samples_in_compared_subtrees.get("test", 0) == 0 for nd, _, _ in nodes):
            ctx.witness("zero-count-node")
    ctx.witness("checked")


def jobs(tier):
    assert validate_shims()
    q = tier == "quick"
    out = []
    for d, nmax in ((1, 4 if q else 5), (2, 4)):
        for n in range(1, nmax + 1):
            for ub in (1, 2):
                exp = ("single-leaf",) + (("split",) if n > ub else ())
                out.append(Job(f"build-d{d}-n{n}-ub{ub}", "checks.c08:body_build", {"n": n, "d": d, "ub": ub}, expect=exp,
                               opts={"validate": 1}))
    # three features: the split axis must cycle 0, 1, 2 (with one or two features `depth - 1` cycles the same way)
    out.append(Job("build-d3-n3-ub1", "checks.c08:body_build", {"n": 3, "d": 3, "ub": 1}, expect=("single-leaf", "split", "deep"),
                   opts={"validate": 1}))
    mm = 2 if q else 3
    for d, n in ((1, 3), (2, 3)):
        for m1 in (0, 1, mm):
            for m2 in (1, mm):
                for reset2 in (False, True):
                    for same in (False, True):
                        if q and d == 2 and (m1 == 0 or not same):
                            continue
                        out.append(Job(f"fill-d{d}-n{n}-m{m1}{m2}-reset{int(reset2)}-same{int(same)}", "checks.c08:body_fill",
                                       {"n": n, "d": d, "ub": 1, "m1": m1, "m2": m2, "reset2": reset2, "same_id": same},
                                       expect=("filled",), opts={"validate": 1}))
    # large samples with a few symbolic rows (size-dependent paths: chunking, buffering; seed C18-7)
    for total, k, d in ((4100, 1, 1), (4500, 1, 2)) if q else ((4100, 2, 1), (4500, 2, 2), (9000, 1, 2)):
        out.append(Job(f"fill-bulk-{total}rows-{k}sym-{d}d", "checks.c08:body_fill_bulk", {"total": total, "k_sym": k, "d": d},
                       expect=("filled",), opts={"validate": 1}))
    for k in (1, 2, 3, 4):
        out.append(Job(f"distn-k{k}", "checks.c08:body_distn", {"k": k}, expect=("lemma",)))
    for n, ub, m in ((3, 1, 2), (2, 1, 1), (3, 2, 2)) + (() if q else ((4, 1, 1),)):
        out.append(Job(f"kl-plotly-n{n}-ub{ub}-m{m}", "checks.c08:body_kl_and_plotly", {"n": n, "ub": ub, "m": m},
                       expect=("checked",) + (("zero-count-node", "leaf-empty-under-both-fills") if n > ub else ()),
                       opts={"validate": 1}))
    return out
