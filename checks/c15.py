"""C15 - detectors and injectors never modify, or keep live references to, caller data.

Relational non-interference, decided by z3 over the real code:

* detector A is handed caller-owned containers (C / Fortran-ordered arrays, a strided view into a larger array, a
  single-block DataFrame, and for the univariate detectors lists / 1-D arrays / Series) of symbolic cells; twin T is
  handed private copies with the same cells.  After chosen calls (every subset position up to the bound, or all of
  them) the caller overwrites *in place* every cell of what it passed to A with fresh unconstrained symbols.  After
  every later call the complete attribute dictionaries of A and T are proved equal: if A kept a live view, some
  attribute (or a library result, which the stubs make a function of the *contents* of its arguments) is a term over
  the overwritten symbols and the solver returns values that separate the two runs.
* right after every call the caller's object is proved to hold exactly the cells it held before the call
  ("never modifies").
* injectors: the result is a new object of the same container type; the input holds the same cells afterwards;
  overwriting every cell of the *result* leaves the input unchanged (no shared buffer in either direction); dictionaries
  passed as arguments are unchanged.

Whether an operation yields a view or a copy is decided inside numpy / pandas.  The symbolic runs execute the real
numpy / pandas on object-dtype containers; `layout_model_ok` compares, at the start of every run, the view / copy
behaviour of object and float64 containers for every operation the anchored modules apply to their inputs (the
stand-in is only trusted where both agree), and every sampled path and every counterexample is re-executed on real
float64 containers.
"""
import copy as _copy

import numpy as np
import pandas as pd

from symx.core import Sym, SymBool, cur, is_sym
from symx.logic import land, state_is
from symx.run import Job

from . import stubs
from .common import obj_array, rebind, scalar, values_equal, states_equal
from .drivers import DRIVERS

PROPERTY = "C15"
ENCODED = [
    "menelaus.detector:StreamingDetector._validate_X", "menelaus.detector:BatchDetector._validate_X",
    "menelaus.detector:StreamingDetector._validate_y", "menelaus.detector:BatchDetector._validate_y",
    "menelaus.data_drift.nndvi:NNDVI.update", "menelaus.data_drift.nndvi:NNDVI.set_reference",
    "menelaus.data_drift.histogram_density_method:HistogramDensityMethod.update",
    "menelaus.data_drift.histogram_density_method:HistogramDensityMethod.set_reference",
    "menelaus.data_drift.histogram_density_method:HistogramDensityMethod.reset",
    "menelaus.data_drift.kdq_tree:KdqTreeStreaming.update", "menelaus.data_drift.kdq_tree:KdqTreeBatch.update",
    "menelaus.data_drift.kdq_tree:KdqTreeBatch.set_reference", "menelaus.data_drift.kdq_tree:KdqTreeDetector._evaluate_kdqtree",
    "menelaus.data_drift.kdq_tree:KdqTreeDetector._inner_set_reference",
    "menelaus.data_drift.pca_cd:PCACD.update",
    "menelaus.change_detection.cusum:CUSUM.update", "menelaus.change_detection.page_hinkley:PageHinkley.update",
    "menelaus.change_detection.adwin:ADWIN.update",
    "menelaus.concept_drift.ddm:DDM.update", "menelaus.concept_drift.eddm:EDDM.update", "menelaus.concept_drift.stepd:STEPD.update",
    "menelaus.concept_drift.lfr:LinearFourRates.update", "menelaus.concept_drift.adwin_accuracy:ADWINAccuracy.update",
    "menelaus.ensemble.ensemble:Ensemble.update", "menelaus.ensemble.ensemble:StreamingEnsemble.update",
    "menelaus.ensemble.ensemble:BatchEnsemble.update", "menelaus.ensemble.ensemble:BatchEnsemble.set_reference",
    "menelaus.injection.injector:Injector._preprocess", "menelaus.injection.injector:Injector._postprocess",
    "menelaus.injection.feature_manipulation:FeatureShiftInjector.__call__",
    "menelaus.injection.feature_manipulation:FeatureSwapInjector.__call__",
    "menelaus.injection.label_manipulation:LabelSwapInjector.__call__",
    "menelaus.injection.label_manipulation:LabelJoinInjector.__call__",
    "menelaus.injection.label_manipulation:LabelProbabilityInjector.__call__",
    "menelaus.injection.label_manipulation:LabelDirichletInjector.__call__",
    "menelaus.injection.noise:BrownianNoiseInjector.__call__",
]
BOUNDS = {
    "quick": "histories of N calls from the constructor (batch detectors: set_reference + N-1 updates, N<=4/5; streaming: N<=3w+3 "
             "for kdq w=1/PCACD w=2, N<=burn_in+4 for CUSUM / Page-Hinkley, N<=6 ADWIN, N<=5 label detectors), containers "
             "{C array, Fortran array, strided view, DataFrame} (+ list, 1-D array, Series for one-variable inputs and labels), "
             "caller overwrite after one call position p (every p) or after every call; batches of 2 rows x 1-2 columns (HDM: 4-5 "
             "placeholder rows); BatchEnsemble (KdqTreeBatch x2 + NNDVI) and StreamingEnsemble (CUSUM x2 + KdqTreeStreaming) with "
             "view-returning column selectors, N<=3/4; injectors on 3 rows x 3 columns, every window, fresh and re-used instances",
    "thorough": "longer histories (N+2), kdq w=2, PCACD w=4, 3-row batches",
}
OUTSIDE = ("containers other than the listed kinds (multi-block / mixed-dtype DataFrames, masked or structured arrays, read-only "
           "buffers); view/copy behaviour of numpy/pandas operations for dtypes other than float64/object; MD3 (its reference frame and "
           "oracle rows go through pandas label indexing and sklearn); FeatureCoverInjector (pandas "
           "groupby.sample); histories longer than the bounds")
ASSUMPTIONS = [
    "numeric library results (kdq divergence and critical value, HDM per-feature distances and bootstrap epsilon, NN-DVI "
    "distance and threshold, PCA-CD densities and scores, ADWIN cut answers, LFR bounds) are deterministic functions of the "
    "*contents* of their arguments, shared by the detector and its twin (drivers of C01/C02): a retained alias shows as a "
    "different argument content after the caller's overwrite",
    "numpy / pandas decide view-vs-copy identically for object and float64 containers for the operations listed in "
    "layout_model_ok (compared with the real libraries at the start of every run; a disagreement is a harness error)",
    "the caller overwrites cells in place (ndarray item assignment, DataFrame.iloc[r, c] = v)",
]
TRUSTED = ["z3", "CPython / numpy / pandas executing the real code on object-dtype containers"]


# --------------------------------------------------------------------------
# view / copy model validation (translator validation (ii) of DESIGN section 5)


def layout_model_ok():
    """The operations menelaus applies to caller containers hand out a view or a copy independently of whether the
    cells are float64 or objects.  Returns the list of disagreements (empty = the object stand-in is faithful)."""
    bad = []

    def behaviours(dt):
        out = {}
        a = np.arange(6).reshape(3, 2).astype(dt)
        df = pd.DataFrame(a.copy(), columns=["a", "b"])
        sm = np.shares_memory
        out["df.values"] = sm(df.values, df.values)
        out["df.values.writeable"] = bool(df.values.flags.writeable)
        v = df.values
        df.iloc[0, 0] = 99
        out["iloc-setitem-visible-through-values"] = bool(v[0, 0] == 99)
        out["df.to_numpy()"] = sm(df.to_numpy(), df.values)
        out["df.to_numpy(copy=True)"] = sm(df.to_numpy(copy=True), df.values)
        out["df.values.copy()"] = sm(df.values.copy(), df.values)
        out["copy.copy(df)"] = sm(_copy.copy(df).values, df.values)
        out["copy.deepcopy(df)"] = sm(_copy.deepcopy(df).values, df.values)
        out["df.copy()"] = sm(df.copy().values, df.values)
        out["df.iloc[1:2]"] = sm(df.iloc[1:2].values, df.values)
        out["df.iloc[[1]]"] = sm(df.iloc[[1]].values, df.values)
        out["df.loc[:, cols]"] = sm(df.loc[:, df.columns != "a"].values, df.values)
        out["DataFrame(arr)"] = sm(pd.DataFrame(a).values, a)
        out["DataFrame(arr, columns)"] = sm(pd.DataFrame(a, columns=["a", "b"]).values, a)
        out["DataFrame(df)"] = sm(pd.DataFrame(df).values, df.values)
        out["concat"] = sm(pd.concat([df, df]).values, df.values)
        out["np.array(a)"] = sm(np.array(a), a)
        out["np.asarray(a)"] = sm(np.asarray(a), a)
        out["np.copy(a)"] = sm(np.copy(a), a)
        out["copy.copy(a)"] = sm(_copy.copy(a), a)
        out["copy.deepcopy(a)"] = sm(_copy.deepcopy(a), a)
        out["a.reshape"] = sm(a.reshape(1, -1), a)
        out["a.ravel()"] = sm(a.ravel(), a)
        out["a.T.ravel()"] = sm(a.T.ravel(), a)
        out["a[0]"] = sm(a[0], a)
        out["a[:, 0]"] = sm(a[:, 0], a)
        out["a[[0]]"] = sm(a[[0]], a)
        out["a[mask]"] = sm(a[np.array([True, False, True])], a)
        out["np.vstack"] = sm(np.vstack([a, a]), a)
        out["np.concatenate"] = sm(np.concatenate([a, a]), a)
        out["np.array(a[0, :1]).ravel()"] = sm(np.array(a[0, :1]).ravel(), a)
        out["np.asfortranarray(f)"] = sm(np.asfortranarray(np.asfortranarray(a)), a)
        s = pd.Series(a[:, 0].copy())
        out["np.array(series)"] = sm(np.array(s), s.values)
        out["copy.copy(series)"] = sm(_copy.copy(s).values, s.values)
        return out

    fl, ob = behaviours(np.float64), behaviours(object)
    for k in fl:
        if fl[k] != ob[k]:
            bad.append(f"{k}: float64 -> {fl[k]}, object -> {ob[k]}")
    return bad


# --------------------------------------------------------------------------
# caller-side containers


def _cells2d(ctx, cells):
    """2-D array of the given cells: object dtype while exploring, float64 in the concrete replay (so that replays
    and sampled-path validation run on the containers real callers use)"""
    a = obj_array(cells) if not isinstance(cells, np.ndarray) else np.array(cells, dtype=object)
    if not ctx.symbolic:
        try:
            if all(isinstance(v, (int, np.integer)) and not isinstance(v, bool) for v in a.reshape(-1)):
                return a.astype(np.int64)  # class labels stay integers
            return a.astype(np.float64)
        except (TypeError, ValueError):
            return a
    return a


class Caller:
    """What the caller owns: `obj` is handed to the detector, `cells()` reads it back, `overwrite()` writes fresh
    symbols into every cell in place (and into the base buffer of a view)."""

    def __init__(self, ctx, kind, cells, columns=None):
        self.ctx, self.kind = ctx, kind
        a = _cells2d(ctx, cells)
        self.shape = a.shape
        self.base = None
        if kind == "c":
            self.obj = np.ascontiguousarray(a)
        elif kind == "f":
            self.obj = np.asfortranarray(a)
        elif kind == "view":
            big = np.empty((a.shape[0] * 2, a.shape[1] + 1), dtype=a.dtype)
            big[...] = 0
            self.base = big
            self.obj = big[::2, 1:]
            self.obj[...] = a
        elif kind == "df":
            self.obj = pd.DataFrame(a, columns=columns or [f"c{j}" for j in range(a.shape[1])])
        elif kind == "list":  # one observation of one variable
            self.obj = [a[0, 0]]
        elif kind == "1d":
            self.obj = a.reshape(-1).copy()
        elif kind == "series":
            self.obj = pd.Series(a.reshape(-1).copy())
        elif kind == "scalar":
            self.obj = a[0, 0]
        else:
            raise ValueError(kind)
        self.before = self.cells()

    def cells(self):
        o = self.obj
        if isinstance(o, pd.DataFrame):
            return [o.iat[r, c] for r in range(o.shape[0]) for c in range(o.shape[1])]
        if isinstance(o, pd.Series):
            return [o.iat[r] for r in range(len(o))]
        if isinstance(o, np.ndarray):
            return list(o.reshape(-1))
        if isinstance(o, list):
            return list(o)
        return [o]

    def unchanged(self):
        now = self.cells()
        if len(now) != len(self.before):
            return False
        return land(*[True if x is y else self.ctx.eq(x, y) for x, y in zip(now, self.before)])

    def overwrite(self, tag):
        c, o = self.ctx, self.obj
        if isinstance(o, pd.DataFrame):
            for r in range(o.shape[0]):
                for j in range(o.shape[1]):
                    o.iloc[r, j] = c.real(f"ow_{tag}_{r}_{j}")
        elif isinstance(o, pd.Series):
            for r in range(len(o)):
                o.iloc[r] = c.real(f"ow_{tag}_{r}")
        elif isinstance(o, np.ndarray):
            for idx in np.ndindex(o.shape):
                o[idx] = c.real("ow_%s_%s" % (tag, "_".join(map(str, idx))))
            if self.base is not None:
                for idx in np.ndindex(self.base.shape):
                    if idx[0] % 2 == 1 or idx[1] == 0:
                        self.base[idx] = c.real("owb_%s_%s" % (tag, "_".join(map(str, idx))))
        elif isinstance(o, list):
            for r in range(len(o)):
                o[r] = c.real(f"ow_{tag}_{r}")
        self.before = self.cells()

    def private_copy(self):
        """an independent container of the same kind holding the same cells (what the twin is given)"""
        shape = self.shape
        cells = np.empty(shape, dtype=object)
        flat = self.before
        for k, idx in enumerate(np.ndindex(shape)):
            cells[idx] = flat[k] if len(flat) == shape[0] * shape[1] else None
        cols = list(self.obj.columns) if isinstance(self.obj, pd.DataFrame) else None
        return Caller(self.ctx, self.kind, cells, cols)


def _plain(v):
    """ADWIN's doubly linked bucket rows as a list (values_equal walks __dict__ and would chase the links for ever)"""
    if type(v).__name__ == "_BucketRowList":
        rows, node = [], v.head
        while node is not None:
            rows.append((node.bucket_count, list(node.bucket_totals), list(node.bucket_variances)))
            node = node.next_bucket
        return ("bucket-rows", v.size, rows)
    return v


def _state_equal(ctx, A, T, skip):
    sa = {k: _plain(v) for k, v in vars(A).items() if k not in skip and not (callable(v) and not hasattr(v, "__dict__"))}
    st = {k: _plain(v) for k, v in vars(T).items() if k not in skip and not (callable(v) and not hasattr(v, "__dict__"))}
    if set(sa) != set(st):
        return False, sorted(set(sa) ^ set(st))
    conds, bad = [], []
    for k in sa:
        e = values_equal(ctx, sa[k], st[k])
        if e is False:
            bad.append(k)
        conds.append(e)
    return land(*conds), bad


# --------------------------------------------------------------------------
# detectors


def _is_label_driver(det):
    return det in ("DDM", "EDDM", "STEPD", "LinearFourRates", "ADWINAccuracy")


def body_detector(ctx, det, N, cfg, kind, overwrite_at, setref=True):
    """A (caller-owned containers, overwritten in place after the calls in `overwrite_at`, or after all calls when it is
    "all") against T (private copies)."""
    Drv = DRIVERS[det]
    with Drv(ctx, **cfg) as drv:
        A = drv.det
        T = drv.twin()
        batch = drv.kind == "batch"
        needs_ref = batch and (det in ("HDM", "NNDVI") or setref)
        owned = []
        skip = set(cfg.get("ignore", ())) | {"_check_epsilon", "_sim_bounds"}
        if det in ("ADWIN", "ADWINAccuracy"):
            # cut answers: one (free) function of the arguments, shared by detector and twin
            memo = stubs.Memo()
            for t in (A, T):
                t._check_epsilon = (lambda tt: (lambda n0, t0, n1, t1: memo.get("cut", (n0, t0, n1, t1, tt._window_size),
                                                                                lambda: cur().bool("cut"))))(t)
        if det == "LinearFourRates":
            memo = stubs.Memo()
            for t in (A, T):
                t._sim_bounds = lambda est, den: memo.get("sim", (est, den), lambda: {k: cur().real(k) for k in
                                                                                       ("lb_warn", "ub_warn", "lb_detect", "ub_detect")})

        def hand_over(i, call):
            raw = drv.fresh_batch("ref") if call == "set_reference" else drv.fresh_input(i)
            if _is_label_driver(det):
                cas = [Caller(ctx, kind, [[raw[0]]]), Caller(ctx, kind, [[raw[1]]])]
                cts = [c.private_copy() for c in cas]
                A.update(cas[0].obj, cas[1].obj)
                T.update(cts[0].obj, cts[1].obj)
            else:
                cells = raw if isinstance(raw, np.ndarray) else [[raw]]
                cas = [Caller(ctx, kind, cells)]
                cts = [c.private_copy() for c in cas]
                getattr(A, call)(cas[0].obj)
                getattr(T, call)(cts[0].obj)
            for c in cas + cts:
                ctx.prove(c.unchanged(), f"caller-object-not-modified-by-{call}")
            owned.extend(cas)
            if overwrite_at == "all" or i in overwrite_at:
                for c in cas:
                    c.overwrite(f"{i}")
                ctx.witness("overwritten")
            eq, bad = _state_equal(ctx, A, T, skip)
            ctx.prove(eq, f"state-after-{call}-equals-private-copy-run", detail={"attributes_differing_concretely": bad})

        pos = 0
        if needs_ref:
            hand_over(pos, "set_reference")
            pos += 1
        try:
            for i in range(pos, N):
                hand_over(i, "update")
                if state_is(A.drift_state, "drift") is True:
                    ctx.witness("drift")
        except ValueError as e:
            if det == "CUSUM" and "Standard deviation is 0" in str(e):
                return
            raise
        # whatever the caller did later, the earlier objects it still owns were never written by the detector
        ctx.witness("compared")


# --------------------------------------------------------------------------
# ensembles: the ensemble hands the caller's object (or what a column selector makes of it - here views of it) on to
# its members; the same non-interference must hold for the ensemble as a whole


def _select(j):
    """a column selector that returns a *view* of the caller's data where the container allows one"""
    def sel(data):
        if isinstance(data, pd.DataFrame):
            return data[[data.columns[j]]]
        a = data if isinstance(data, np.ndarray) else np.asarray(data, dtype=object)
        return a[:, j:j + 1]
    return sel


def body_ensemble(ctx, family, N, kind, overwrite_at):
    from collections import OrderedDict

    from menelaus.ensemble import BatchEnsemble, SimpleMajorityElection, StreamingEnsemble

    if family == "batch":
        specs = [("KdqTreeBatch", {"dim": 1, "rows": 2}), ("NNDVI", {"dim": 1, "rows": 2}), ("KdqTreeBatch", {"dim": 2, "rows": 2})]
        names = ["kdq-col0", "nndvi-col1", "kdq-all"]
        selectors = {"kdq-col0": _select(0), "nndvi-col1": _select(1)}
    else:
        # long burn-ins: the scalar members (CUSUM keeps every observation in _stream) only store what they are given -
        # their decisions are covered by the stand-alone jobs and would multiply the paths; the kdq member decides
        specs = [("CUSUM", {"burn_in": 50, "target_given": True, "ite_max": True}),
                 ("CUSUM", {"burn_in": 50, "target_given": True, "ite_max": True}),
                 ("KdqTreeStreaming", {"window_size": 1, "dim": 2})]
        names = ["cusum-col0", "cusum-col1", "kdq-all"]
        selectors = {"cusum-col0": _select(0), "cusum-col1": _select(1)}
    drivers = [DRIVERS[n](ctx, **c) for n, c in specs]
    try:
        for d in drivers:
            d.__enter__()
        A_m, T_m = OrderedDict(), OrderedDict()
        for nm, d in zip(names, drivers):
            A_m[nm], T_m[nm] = d.det, d.twin()
        Ens = BatchEnsemble if family == "batch" else StreamingEnsemble
        A = Ens(dict(A_m), SimpleMajorityElection(), dict(selectors))
        T = Ens(dict(T_m), SimpleMajorityElection(), dict(selectors))
        rows = 2 if family == "batch" else 1

        def hand_over(i, call):
            cells = [[ctx.real(f"x{i}_{r}_{j}") for j in range(2)] for r in range(rows)]
            ca = Caller(ctx, kind, cells)
            ct = ca.private_copy()
            try:
                if family == "batch":
                    getattr(A, call)(ca.obj)
                    getattr(T, call)(ct.obj)
                else:
                    A.update(ca.obj, None, None)
                    T.update(ct.obj, None, None)
            except ValueError as e:
                if "Standard deviation is 0" in str(e):
                    raise core_abort()
                raise
            ctx.prove(ca.unchanged(), f"caller-object-not-modified-by-{call}")
            if overwrite_at == "all" or i in overwrite_at:
                ca.overwrite(f"{i}")
                ctx.witness("overwritten")
            conds = [ctx.eq(1, 1)]
            bad = []
            for nm in names:
                e, b = _state_equal(ctx, A_m[nm], T_m[nm], {"_check_epsilon", "_sim_bounds", "_get_critical_kld", "_compute_drift_threshold"})
                conds.append(e)
                bad += [f"{nm}.{k}" for k in b]
            sa, st = A.drift_state, T.drift_state
            conds.append(sa is st or sa == st)
            ctx.prove(land(*conds), f"ensemble-after-{call}-equals-private-copy-run", detail={"attributes_differing_concretely": bad})

        pos = 0
        if family == "batch":
            hand_over(0, "set_reference")
            pos = 1
        for i in range(pos, N):
            hand_over(i, "update")
        ctx.witness("compared")
    finally:
        for d in reversed(drivers):
            d.__exit__(None, None, None)


def core_abort():
    from symx.core import PathAbort

    return PathAbort()


# --------------------------------------------------------------------------
# injectors

COLS = ["a", "b", "c"]


def _inj_make(name):
    from menelaus import injection as I

    return {"FeatureShift": I.FeatureShiftInjector, "FeatureSwap": I.FeatureSwapInjector, "LabelSwap": I.LabelSwapInjector,
            "LabelJoin": I.LabelJoinInjector, "LabelProbability": I.LabelProbabilityInjector,
            "LabelDirichlet": I.LabelDirichletInjector, "Brownian": I.BrownianNoiseInjector}[name]()


def _inj_call(inj, name, ctx, data, f, t, container, extra, tag=""):
    col = (lambda j: COLS[j]) if container == "df" else (lambda j: j)
    if name == "FeatureShift":
        return inj(data, f, t, col(0), ctx.real("shift_factor" + tag), ctx.real("alpha" + tag))
    if name == "FeatureSwap":
        return inj(data, f, t, col(0), col(2))
    if name == "LabelSwap":
        return inj(data, f, t, col(2), 0, 1)
    if name == "LabelJoin":
        return inj(data, f, t, col(2), 0, 1, 7)
    if name == "LabelProbability":
        return inj(data, f, t, col(2), extra["probs"])
    if name == "LabelDirichlet":
        return inj(data, f, t, col(2), extra["alpha"])
    if name == "Brownian":
        return inj(data, f, t, col(0), ctx.real("x0" + tag))
    raise ValueError(name)


def body_injector(ctx, name, n, container, reuse=False):
    from menelaus.injection import label_manipulation as LM, noise as NZ

    labels = [0, 1, 2, 0, 1][:n]
    cells = [[ctx.real(f"c{r}_0"), ctx.real(f"c{r}_1"), labels[r]] for r in range(n)]
    owner = Caller(ctx, container, cells, COLS)
    f, t = ctx.int("from_index"), ctx.int("to_index")
    ctx.assume(land(0 <= f, f <= t, t <= n))
    f, t = int(f), int(t)
    extra = {}
    p0 = ctx.real("p0")
    ctx.assume(land(p0 >= 0, p0 <= 1))
    extra["probs"] = {0: p0}  # classes 1 and 2 unspecified: the injector distributes the remainder
    extra["alpha"] = {2: 3, 1: 2, 0: 1}
    dict_before = {k: dict(v) for k, v in extra.items()}

    def choice(population, size=None, p=None, replace=True):
        k = size if size is not None else 1
        pop = list(population) if not isinstance(population, (int, np.integer)) else list(range(int(population)))
        if size is None:
            return pop[0]
        picks = [pop[i % len(pop)] for i in range(int(k))]
        if all(isinstance(v, (int, np.integer)) for v in picks):
            return np.array(picks, dtype=int)
        return np.array(picks, dtype=object)

    def dirichlet(alpha):
        k = len(alpha)
        return np.array([1.0 / k] * k)

    shim = stubs.NpShim(random=_Random(choice, dirichlet))
    with rebind(LM, np=shim), rebind(NZ, np=shim):
        inj = _inj_make(name)
        if reuse:
            # the same injector object was used before on the *other* container kind (same width): nothing of that call
            # may leak into this one - in particular not the container type of the result (seed C15-10)
            other_kind = "c" if container == "df" else "df"
            warm = Caller(ctx, other_kind, [[ctx.real(f"w{r}_0"), ctx.real(f"w{r}_1"), [0, 1, 2][r]] for r in range(3)], COLS)
            wout = _inj_call(inj, name, ctx, warm.obj, 0, 3, other_kind, {k: dict(v) for k, v in extra.items()}, tag="_warm")
            ctx.prove(type(wout) is type(warm.obj), "result-has-the-input-container-type")
            ctx.witness("reused-instance")
        out = _inj_call(inj, name, ctx, owner.obj, f, t, container, extra)
    ctx.prove(type(out) is type(owner.obj), "result-has-the-input-container-type")
    ctx.prove(out is not owner.obj, "result-is-a-new-object")
    ctx.prove(owner.unchanged(), "input-cells-unchanged")
    for k in extra:
        same = list(extra[k].keys()) == list(dict_before[k].keys()) and all(
            (extra[k][kk] is dict_before[k][kk]) or bool(ctx.eq(extra[k][kk], dict_before[k][kk]) is True) for kk in dict_before[k])
        if name in ("LabelProbability", "LabelDirichlet"):
            ctx.prove(same, f"dictionary-argument-{k}-unchanged")
    # overwrite the result in place: the caller's input must not see it
    if isinstance(out, pd.DataFrame):
        for r in range(out.shape[0]):
            for j in range(out.shape[1]):
                out.iloc[r, j] = ctx.real(f"ow_out_{r}_{j}")
    else:
        for idx in np.ndindex(out.shape):
            out[idx] = ctx.real("ow_out_%d_%d" % idx)
    ctx.prove(owner.unchanged(), "input-does-not-share-cells-with-the-result")
    ctx.witness("empty" if t == f else "non-empty")


class _Random:
    def __init__(self, choice, dirichlet):
        self.choice, self.dirichlet = choice, dirichlet

    def seed(self, *a, **k):
        return None


def body_layout_model(ctx):
    bad = layout_model_ok()
    ctx.prove(not bad, "object-and-float64-containers-share-view-copy-behaviour", detail={"disagreements": bad})
    ctx.witness("compared")


# --------------------------------------------------------------------------


def _positions(N, q):
    """overwrite schedules: after every single call position, and after all calls"""
    return [[p] for p in range(N - 1)] + ["all"]


def jobs(tier):
    q = tier == "quick"
    out = [Job("layout-model", "checks.c15:body_layout_model", {}, expect=("compared",), opts={"validate": 0})]

    def add(det, N, cfg, kinds, tag, expect=("overwritten", "compared"), setref=True, opts=None):
        for kind in kinds:
            for ow in _positions(N, q):
                nm = f"{tag}-{kind}-ow{'all' if ow == 'all' else ow[0]}"
                out.append(Job(nm, "checks.c15:body_detector",
                               {"det": det, "N": N, "cfg": cfg, "kind": kind, "overwrite_at": ow, "setref": setref},
                               expect=expect, opts=dict({"validate": 1}, **(opts or {}))))

    K2 = ("c", "f", "view", "df")
    K1 = K2 + ("list", "1d", "series")
    x = 0 if q else 1
    add("NNDVI", 4 + x, {"rows": 2 + x, "dim": 2}, K2, "nndvi")
    add("KdqTreeBatch", 4 + x, {"rows": 2 + x, "dim": 2}, K2, "kdqbatch")
    add("KdqTreeBatch", 3 + x, {"rows": 2, "dim": 1}, K2, "kdqbatch-noref", setref=False)
    for db in (1, 2, 3):
        add("HDM", 4 + x + (1 if db == 3 else 0), {"cls": "HDDDM", "detect_batch": db, "statistic": "stdev", "features": 2}, K2,
            f"hdddm-db{db}")
    add("HDM", 4 + x, {"cls": "CDBD", "detect_batch": 1, "statistic": "tstat"}, K2, "cdbd")
    for w in (1,) if q else (1, 2):
        add("KdqTreeStreaming", 3 * w + 3, {"window_size": w, "dim": 2}, K2, f"kdqstream-w{w}")
    add("PCACD", 7 if q else 9, {"window_size": 2, "dim": 2, "online_scaling": True}, K2, "pcacd-scaled")
    add("PCACD", 7 if q else 9, {"window_size": 2, "dim": 2, "online_scaling": False}, K2, "pcacd-raw")
    add("CUSUM", 6 + x, {"burn_in": 2, "target_given": False, "ite_max": True}, K1, "cusum")
    add("PageHinkley", 4 + x, {"burn_in": 1}, K1, "ph")
    add("ADWIN", 5 + x, {"max_buckets": 2}, K1, "adwin")
    for det, cfg in (("DDM", {"n_threshold": 1}), ("EDDM", {"n_threshold": 1}), ("STEPD", {"window_size": 1}),
                     ("ADWINAccuracy", {"max_buckets": 2})):
        add(det, 4 + x, cfg, ("1d", "list", "series"), det.lower())
    add("LinearFourRates", 2 + x, {"burn_in": 0}, ("1d", "list", "series"), "lfr")
    for family, n in (("batch", 3 + x), ("stream", 4 + x)):
        for kind in K2:
            for ow in _positions(n, q):
                out.append(Job(f"ensemble-{family}-{kind}-ow{'all' if ow == 'all' else ow[0]}", "checks.c15:body_ensemble",
                               {"family": family, "N": n, "kind": kind, "overwrite_at": ow},
                               expect=("overwritten", "compared"), opts={"validate": 1}))
    for name in ("FeatureShift", "FeatureSwap", "LabelSwap", "LabelJoin", "LabelProbability", "LabelDirichlet", "Brownian"):
        for container in ("c", "f", "view", "df"):
            out.append(Job(f"inj-{name}-{container}", "checks.c15:body_injector",
                           {"name": name, "n": 3 if q else 4, "container": container}, expect=("empty", "non-empty"),
                           opts={"validate": 1}))
        for container in ("c", "df"):
            out.append(Job(f"inj-{name}-{container}-reused-instance", "checks.c15:body_injector",
                           {"name": name, "n": 3, "container": container, "reuse": True},
                           expect=("empty", "non-empty", "reused-instance"), opts={"validate": 1}))
    return out
