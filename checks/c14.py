"""C14 - uniform input validation; rejected inputs do no harm; containers don't matter.

(1) Shape obligations: the real _validate_X/_validate_y/_validate_input of both
    base classes run on shape-only containers with *symbolic* row/column counts
    and symbolic column-name identity; every history of <=3 (4) calls of
    symbolic kind is compared with the acceptance rule of the statement, and a
    rejected call must leave the remembered columns untouched.
(2) No-harm (relational): for every detector, history + malformed call +
    accepted input vs. history + accepted input: the malformed call raises
    ValueError, is not counted, and the complete states are equal afterwards.
(3) Containers (relational): the same symbolic value as scalar / list / 1-D
    array / Series / 1x1 DataFrame gives equal complete state.
"""
import numpy as np
import pandas as pd

from symx.core import Sym, SymBool, cur
from symx.logic import b2i, between, iff, implies, ite, land, lnot, lor, state_is
from symx.run import Job

from . import stubs
from .common import obj_array, rebind, states_equal, values_equal
from .drivers import DRIVERS

PROPERTY = "C14"
ENCODED = [
    "menelaus.detector:StreamingDetector._validate_X", "menelaus.detector:StreamingDetector._validate_y",
    "menelaus.detector:StreamingDetector._validate_input",
    "menelaus.detector:BatchDetector._validate_X", "menelaus.detector:BatchDetector._validate_y",
    "menelaus.detector:BatchDetector._validate_input",
    "menelaus.change_detection.adwin:ADWIN.update", "menelaus.change_detection.cusum:CUSUM.update",
    "menelaus.change_detection.page_hinkley:PageHinkley.update", "menelaus.data_drift.cdbd:CDBD.update",
    "menelaus.data_drift.cdbd:CDBD.set_reference",
]
BOUNDS = {
    "quick": "(1) histories of <=3 calls, each of symbolic kind in {DataFrame, 2-D array, 1-D array/list/Series, scalar}, row and "
             "column counts unbounded symbolic integers (DataFrame width <=3 because len() must be concrete), column names "
             "symbolic identities; (2) 14 detectors x malformed kinds x position k in {0,1,2} of a symbolic history (extra column as 2-D array and, for the "
             "univariate streaming detectors, as flat list / tuple / 1-D array / Series of two values; a two-column first reference for CDBD); "
             "(3) 5 container kinds x N<=2 updates for 8 streaming detectors",
    "thorough": "(1) histories of <=4 calls; (2) positions k<=3; (3) N<=3",
}
OUTSIDE = ("containers other than the five kinds; numpy's coercion rules are modelled for them (0-d -> (), 1-d -> (n,), 2-d) and "
           "validated against real numpy/pandas on a concrete grid at the start of every run; MD3 (own validation, C19); "
           "histories in which the recorded known finding (DataFrame after arrays with a different width) has already occurred")
ASSUMPTIONS = [
    "(1) detector.np/DataFrame/copy rebound to shape-only fakes: np.array(x) has the ndim/shape numpy gives for the five container "
    "kinds, DataFrame.values has shape (rows, len(columns)), columns.equals() compares identities and widths",
    "(2),(3) numeric kernels of the data-drift detectors stubbed as in C01/C02 (deterministic functions of their arguments)",
]
TRUSTED = ["z3", "CPython/numpy/pandas", "the concrete-grid validation of the container model"]


# --------------------------------------------------------------------------
# (1) shape-only containers


class FakeCols:
    def __init__(self, ident, width):
        self.ident, self.width = ident, width

    def equals(self, other):
        if not isinstance(other, FakeCols):
            return False
        return land(self.ident == other.ident, self.width == other.width)

    def __len__(self):
        return self.width


class FakeArr:
    def __init__(self, shape):
        self.shape = tuple(shape)

    def reshape(self, *dims):
        n = 1
        for s in self.shape:
            n = n * s
        if tuple(dims) == (1, -1):
            return FakeArr((1, n))
        if tuple(dims) == (-1, 1):
            return FakeArr((n, 1))
        raise AssertionError(f"unexpected reshape {dims}")

    def ravel(self):
        n = 1
        for s in self.shape:
            n = n * s
        return FakeArr((n,))

    def copy(self):
        return FakeArr(self.shape)


class FakeDF:
    def __init__(self, rows, cols):
        self.rows, self.columns = rows, cols

    @property
    def values(self):
        return FakeArr((self.rows, self.columns.width))

    def to_numpy(self, *a, **k):
        return FakeArr((self.rows, self.columns.width))


class Raw:
    """a non-DataFrame input whose np.array() has the given shape"""

    def __init__(self, shape):
        self.shape_ = tuple(shape)


class FakeNp:
    @staticmethod
    def array(x):
        if isinstance(x, FakeArr):
            return x
        return FakeArr(x.shape_)


class FakeCopy:
    @staticmethod
    def copy(x):
        return x


def _mk_input(ctx, i, kind, width_df):
    """returns (object, is_df, rows, cols, names) with symbolic sizes"""
    if kind == "df":
        rows = ctx.int(f"rows{i}")
        ident = ctx.int(f"names{i}")
        ctx.assume(rows >= 0)
        return FakeDF(rows, FakeCols(ident, width_df)), True, rows, width_df, ident
    if kind == "2d":
        rows, cols = ctx.int(f"rows{i}"), ctx.int(f"cols{i}")
        ctx.assume(land(rows >= 0, cols >= 0))
        return Raw((rows, cols)), False, rows, cols, None
    if kind == "1d":
        n = ctx.int(f"len{i}")
        ctx.assume(n >= 0)
        return Raw((n,)), False, None, n, None  # interpreted per detector family below
    return Raw(()), False, None, 1, None  # scalar


def body_shapes(ctx, family, kinds, df_widths):
    from menelaus import detector as D

    cls = D.StreamingDetector if family == "stream" else D.BatchDetector
    saved = cls.__abstractmethods__
    cls.__abstractmethods__ = frozenset()
    try:
        det = cls()
    finally:
        cls.__abstractmethods__ = saved
    est_dim, est_names = None, None  # specification state: established width / names
    with rebind(D, np=FakeNp, DataFrame=FakeDF, copy=FakeCopy):
        for i, kind in enumerate(kinds):
            obj, is_df, rows, cols, names = _mk_input(ctx, i, kind, df_widths[i])
            if kind == "1d":  # coerced: one row of n columns (stream) / n rows of one column (batch)
                rows, cols = (1, cols) if family == "stream" else (cols, 1)
            elif kind == "scalar":
                rows, cols = 1, 1
            rows_ok = (rows == 1) if family == "stream" else (rows >= 2)
            dim_ok = True if est_dim is None else (cols == est_dim)
            names_ok = True if (not is_df or est_names is None) else land(names == est_names[0], cols == est_names[1])
            spec_accept = land(rows_ok, dim_ok, names_ok)
            # the recorded known finding: a DataFrame after array-only inputs is not width-checked
            kf_pattern = land(is_df, est_names is None, est_dim is not None, lnot(dim_ok)) if est_dim is not None else False
            before = (det._input_cols, det._input_col_dim)
            try:
                det._validate_X(obj)
                accepted = True
            except ValueError:
                accepted = False
            if kf_pattern is not False and bool(kf_pattern):
                # recorded known finding (known_findings.json): keyed to exactly this call pattern by its own label;
                # what happens after such a call has been accepted is outside the claim
                ctx.prove(iff(accepted, spec_accept), "accept-iff-spec[dataframe-after-arrays-with-other-width]")
                ctx.witness("known-pattern")
                return
            ctx.prove(iff(accepted, spec_accept), "accept-iff-spec")
            if not accepted:
                ctx.prove(det._input_cols is before[0] and (det._input_col_dim is before[1]),
                          "rejected-call-leaves-remembered-columns-unchanged")
                ctx.witness("rejected")
            else:
                ctx.witness("accepted")
                if est_dim is None:
                    est_dim = cols
                if is_df and est_names is None:
                    est_names = (names, cols)
                ctx.prove(ctx.eq(det._input_col_dim, est_dim), "remembered-width-is-first-accepted")


def body_y(ctx, family, kind):
    from menelaus import detector as D

    cls = D.StreamingDetector if family == "stream" else D.BatchDetector
    saved = cls.__abstractmethods__
    cls.__abstractmethods__ = frozenset()
    try:
        det = cls()
    finally:
        cls.__abstractmethods__ = saved
    with rebind(D, np=FakeNp, DataFrame=FakeDF, copy=FakeCopy):
        if kind == "2d":
            r, c = ctx.int("rows"), ctx.int("cols")
            ctx.assume(land(r >= 0, c >= 0))
            obj, n_obs, ncols = Raw((r, c)), r * c if family == "stream" else r, c
            shape = (r, c)
        elif kind == "1d":
            n = ctx.int("len")
            ctx.assume(n >= 0)
            obj, shape = Raw((n,)), (n,)
        else:
            obj, shape = Raw(()), ()
        try:
            det._validate_y(obj)
            accepted = True
        except ValueError:
            accepted = False
        if family == "stream":
            total = 1
            for s in shape:
                total = total * s
            ctx.prove(iff(accepted, total == 1), "y-exactly-one-observation")
        else:
            if len(shape) <= 1:
                ctx.prove(not accepted, "y-batch-needs-a-column-of-several-observations")
            else:
                ctx.prove(iff(accepted, land(lnot(shape[0] == 1), shape[1] == 1)), "y-batch-one-column-several-rows")
        ctx.witness("accepted" if accepted else "rejected")


def validate_container_model():
    """Translator validation: the fakes reproduce real numpy/pandas shapes on a concrete grid."""
    import copy as _copy

    cases = [3.0, [1.0], [1.0, 2.0], np.array([1.0, 2.0, 3.0]), np.array([[1.0, 2.0]]), np.array([[1.0], [2.0]]),
             pd.Series([1.0, 2.0]), np.array(5.0), [[1, 2], [3, 4]]]
    for x in cases:
        a = np.array(_copy.copy(x))
        kind = {0: (), 1: (a.shape[0],) if a.ndim == 1 else None}.get(a.ndim, a.shape)
        f = FakeNp.array(Raw(a.shape))
        assert f.shape == a.shape, (x, f.shape, a.shape)
        if a.ndim <= 1:
            assert f.reshape(1, -1).shape == a.reshape(1, -1).shape
            assert f.reshape(-1, 1).shape == a.reshape(-1, 1).shape
        assert FakeNp.array(Raw(a.shape)).ravel().shape == np.array(x).ravel().shape
    df = pd.DataFrame({"a": [1, 2], "b": [3, 4]})
    assert FakeDF(2, FakeCols(0, 2)).values.shape == df.values.shape
    return True


# --------------------------------------------------------------------------
# (2) rejected calls do no harm


def _malformed(drv, det, kind, x):
    """build a malformed call for the detector; returns a thunk"""
    d = drv.det
    if kind == "y-two-observations":
        return lambda target: target.update([x[0], x[0]], [x[1], x[1]])
    if kind == "two-rows":
        arr = np.vstack([np.asarray(x, dtype=object).reshape(1, -1)] * 2)
        return lambda target: target.update(arr)
    if kind == "one-row-batch":
        return lambda target: target.update(np.asarray(x)[:1])
    if kind == "extra-column":
        a = np.asarray(x, dtype=object)
        a = a.reshape(1, -1) if a.ndim <= 1 else a
        wide = np.hstack([a, a[:, :1]])
        return lambda target: target.update(wide)
    if kind.startswith("two-values-"):
        # two values in a one-dimensional container are one observation of two columns: univariate detectors refuse it
        v = np.asarray(x, dtype=object).reshape(-1)[0]
        cont = kind[len("two-values-"):]
        flat = {"list": lambda: [v, v], "tuple": lambda: (v, v), "array": lambda: np.array([v, v], dtype=object),
                "series": lambda: pd.Series([v, v], dtype=object)}[cont]()
        return lambda target: target.update(flat)
    if kind == "extra-column-frame":
        a = np.asarray(x, dtype=object)
        a = a.reshape(1, -1) if a.ndim <= 1 else a
        wide = pd.DataFrame(np.hstack([a, a[:, :1]]), columns=[f"w{j}" for j in range(a.shape[1] + 1)])
        return lambda target: target.update(wide)
    if kind == "setref-extra-column":
        # a univariate batch detector must refuse a multi-column *reference* as well
        a = np.asarray(x, dtype=object)
        wide = np.hstack([a, a[:, :1]])
        return lambda target: target.set_reference(wide)
    if kind == "renamed-columns":
        a = np.asarray(x, dtype=object)
        a = a.reshape(1, -1) if a.ndim <= 1 else a
        df = pd.DataFrame(a, columns=[f"other{j}" for j in range(a.shape[1])])
        return lambda target: target.update(df)
    if kind in ("permuted-columns", "dropped-column"):
        # the history used DataFrames with columns c0..ck: same names in another order / one name missing
        a = np.asarray(x, dtype=object)
        a = a.reshape(1, -1) if a.ndim <= 1 else a
        names = [f"c{j}" for j in range(a.shape[1])]
        if kind == "permuted-columns":
            df = pd.DataFrame(a[:, ::-1], columns=names[::-1])
        else:
            df = pd.DataFrame(a[:, :-1], columns=names[:-1])
        return lambda target: target.update(df)
    raise AssertionError(kind)


SKIP_KEYS = ("_check_epsilon", "_sim_bounds", "_get_critical_kld", "_compute_drift_threshold", "_estimate_initial_epsilon",
             "distance_function", "_build_histograms", "_build_kde", "_intersection_divergence", "_jensen_shannon_distance",
             "_bucket_row_list")


def body_noharm(ctx, det, cfg, kind, k, use_df):
    Drv = DRIVERS[det]
    with Drv(ctx, **cfg) as drv:
        A, B = drv.det, drv.twin()
        if det in ("ADWIN", "ADWINAccuracy"):
            memo = stubs.Memo()
            for t in (A, B):
                t._check_epsilon = (lambda tt: (lambda n0, t0, n1, t1: memo.get("cut", (n0, t0, n1, t1, tt._window_size),
                                                                                lambda: cur().bool("cut"))))(t)
        if det == "LinearFourRates":
            memo = stubs.Memo()
            for t in (A, B):
                t._sim_bounds = lambda est, den: memo.get("sim", (est, den), lambda: {kk: cur().real(kk) for kk in
                                                                                       ("lb_warn", "ub_warn", "lb_detect", "ub_detect")})
        needs_ref = det in ("HDM", "NNDVI")
        wrap = (lambda x: pd.DataFrame(np.asarray(x, dtype=object).reshape(1, -1) if np.asarray(x, dtype=object).ndim <= 1
                                        else x, columns=[f"c{j}" for j in range(np.asarray(x, dtype=object).reshape(1, -1).shape[1]
                                                                                 if np.asarray(x, dtype=object).ndim <= 1 else np.asarray(x).shape[1])])) \
            if use_df else (lambda x: x)
        if needs_ref:
            R = drv.fresh_batch("ref")
            A.set_reference(wrap(R))
            B.set_reference(wrap(R))
        try:
            for i in range(k):
                x = drv.fresh_input(i)
                xx = wrap(x) if not isinstance(x, tuple) else x
                drv.apply(A, xx)
                drv.apply(B, xx)
            x = drv.fresh_input(k)
            xx = wrap(x) if not isinstance(x, tuple) else x
            if kind == "extra-column-frame":
                # plain inputs so far (a width but no names is remembered), a two-column DataFrame is refused, and the next
                # valid observation arrives as a one-column DataFrame
                a_ok = np.asarray(x, dtype=object)
                a_ok = a_ok.reshape(1, -1) if a_ok.ndim <= 1 else a_ok  # a batch keeps its rows
                xx = pd.DataFrame(a_ok, columns=[f"c{j}" for j in range(a_ok.shape[1])])
            bad = _malformed(drv, det, kind, x)
            before = drv.counters(A)
            state_before = A.drift_state
            raised = False
            try:
                bad(A)
            except ValueError:
                raised = True
            ctx.prove(raised, "malformed-call-raises-ValueError")
            after = drv.counters(A)
            ctx.prove(land(ctx.eq(before[0], after[0])), "rejected-call-not-counted")
            drv.apply(A, xx)
            drv.apply(B, xx)
        except ValueError as e:
            if "Standard deviation is 0" in str(e):
                return
            raise
        ctx.prove(states_equal(ctx, vars(A), vars(B), skip=SKIP_KEYS), "state-equal-to-run-without-rejected-call")
        if det in ("ADWIN", "ADWINAccuracy"):
            ctx.prove(ctx.eq(A.mean(), B.mean()) if A._window_size else True, "state-equal-to-run-without-rejected-call")
        ctx.witness("compared")


def body_univariate_first_reference(ctx, cfg):
    """a univariate batch detector refuses a multi-column reference even when nothing is established yet, and the refused
    call leaves no trace"""
    with DRIVERS["HDM"](ctx, **cfg) as drv:
        A, B = drv.det, drv.twin()
        R = drv.fresh_batch("ref")
        a = np.asarray(R, dtype=object)
        wide = np.hstack([a, a[:, :1]])
        raised = False
        try:
            A.set_reference(wide)
        except ValueError:
            raised = True
        ctx.prove(raised, "malformed-call-raises-ValueError")
        A.set_reference(R)
        B.set_reference(R)
        for i in range(2):
            x = drv.fresh_input(i)
            drv.apply(A, x)
            drv.apply(B, x)
        ctx.prove(states_equal(ctx, vars(A), vars(B), skip=SKIP_KEYS), "state-equal-to-run-without-rejected-call")
        ctx.witness("compared")


# --------------------------------------------------------------------------
# (3) containers


def _as(kind, v):
    if kind == "scalar":
        return v
    if kind == "list":
        return [v]
    if kind == "array":
        a = np.empty(1, dtype=object)
        a[0] = v
        return a
    if kind == "series":
        return pd.Series([v], dtype=object)
    return pd.DataFrame(obj_array([[v]]))


def body_containers(ctx, det, cfg, kind, N):
    Drv = DRIVERS[det]
    with Drv(ctx, **cfg) as drv:
        A, B = drv.det, drv.twin()
        if det in ("ADWIN", "ADWINAccuracy"):
            memo = stubs.Memo()
            for t in (A, B):
                t._check_epsilon = (lambda tt: (lambda n0, t0, n1, t1: memo.get("cut", (n0, t0, n1, t1, tt._window_size),
                                                                                lambda: cur().bool("cut"))))(t)
        try:
            for i in range(N):
                x = drv.fresh_input(i)
                if isinstance(x, tuple):
                    drv.apply(A, x)
                    if kind == "dataframe":
                        kind_y = "array"  # labels are not passed as frames
                    else:
                        kind_y = kind
                    B.update(_as(kind_y, x[0]), _as(kind_y, x[1]))
                else:
                    v = x if not isinstance(x, np.ndarray) else x.reshape(-1)[0]
                    A.update(v)
                    B.update(_as(kind, v))
        except ValueError as e:
            if "Standard deviation is 0" in str(e):
                return
            raise
        skip = SKIP_KEYS + (("_input_cols",) if kind == "dataframe" else ())
        ctx.prove(states_equal(ctx, vars(A), vars(B), skip=skip), "container-kind-does-not-matter")
        ctx.witness("compared")


def jobs(tier):
    from itertools import product

    assert validate_container_model()
    q = tier == "quick"
    out = []
    L = 3 if q else 4
    kinds = ("df", "2d", "1d", "scalar")
    for family in ("stream", "batch"):
        for n in range(1, L + 1):
            for ks in product(kinds, repeat=n):
                if n == L and q and ks.count("scalar") + ks.count("1d") > 1:
                    continue
                ndf = ks.count("df")
                widths_opts = [()]
                # DataFrame widths are concrete (len()): 1..3, all combinations for <=2 frames
                dfw = list(product((1, 2, 3), repeat=ndf)) if ndf <= 2 else [(1, 1, 1), (2, 2, 2), (1, 2, 1), (2, 2, 3)] + ([(3, 1, 1, 2)] if ndf == 4 else [])
                for w in dfw:
                    if len(w) != ndf:
                        continue
                    it = iter(w)
                    widths = [next(it) if kk == "df" else None for kk in ks]
                    out.append(Job(f"shapes-{family}-{'.'.join(ks)}-w{''.join(map(str, w))}", "checks.c14:body_shapes",
                                   {"family": family, "kinds": list(ks), "df_widths": widths},
                                   opts={"stop_on_violation": False, "validate": 1}))
        for kind in ("2d", "1d", "scalar"):
            out.append(Job(f"y-{family}-{kind}", "checks.c14:body_y", {"family": family, "kind": kind}))
    # (2) no-harm
    stream_x = [("ADWIN", {"max_buckets": 1, "new_sample_thresh": 1, "window_size_thresh": 0, "subwindow_size_thresh": 1}),
                ("CUSUM", {"burn_in": 1, "target_given": True, "ite_max": True}), ("PageHinkley", {"burn_in": 0})]
    multi_x = [("KdqTreeStreaming", {"window_size": 1, "dim": 2}), ("PCACD", {"window_size": 2, "dim": 2})]
    label = [("DDM", {"n_threshold": 1}), ("EDDM", {"n_threshold": 1}), ("STEPD", {"window_size": 1}),
             ("LinearFourRates", {"burn_in": 0, "rates_tracked": ["ppv"]}),
             ("ADWINAccuracy", {"max_buckets": 1, "new_sample_thresh": 1, "window_size_thresh": 0, "subwindow_size_thresh": 1})]
    batch = [("KdqTreeBatch", {"dim": 2}), ("HDM", {"cls": "HDDDM", "detect_batch": 2, "statistic": "stdev", "features": 2}),
             ("HDM", {"cls": "CDBD", "detect_batch": 2, "statistic": "stdev"}), ("NNDVI", {"dim": 2})]
    ks = (0, 1, 2) if q else (0, 1, 2, 3)
    for det, cfg in stream_x:
        for cont in ("list", "tuple", "array", "series"):
            for k in (0, 1):
                out.append(Job(f"noharm-{det}-two-values-{cont}-k{k}", "checks.c14:body_noharm",
                               {"det": det, "cfg": cfg, "kind": f"two-values-{cont}", "k": k, "use_df": False}, expect=("compared",)))
        for k in (1, 2):
            out.append(Job(f"noharm-{det}-extra-column-frame-k{k}", "checks.c14:body_noharm",
                           {"det": det, "cfg": cfg, "kind": "extra-column-frame", "k": k, "use_df": False}, expect=("compared",)))
        for kind in ("two-rows", "extra-column"):
            for k in ks:
                out.append(Job(f"noharm-{det}-{kind}-k{k}", "checks.c14:body_noharm",
                               {"det": det, "cfg": cfg, "kind": kind, "k": k, "use_df": False}, expect=("compared",)))
    for det, cfg in multi_x:
        for kind, use_df in (("two-rows", False), ("extra-column", False), ("renamed-columns", True), ("extra-column", True),
                             ("permuted-columns", True), ("dropped-column", True)):
            for k in ks:
                if k == 0 and kind in ("extra-column", "renamed-columns", "permuted-columns", "dropped-column"):
                    continue  # nothing established yet: a different width/name is simply the first input
                out.append(Job(f"noharm-{det}-{kind}-df{int(use_df)}-k{k}", "checks.c14:body_noharm",
                               {"det": det, "cfg": cfg, "kind": kind, "k": k, "use_df": use_df}, expect=("compared",)))
    for det, cfg in label:
        for k in ks[:3]:
            out.append(Job(f"noharm-{det}-y2-k{k}", "checks.c14:body_noharm",
                           {"det": det, "cfg": cfg, "kind": "y-two-observations", "k": k, "use_df": False}, expect=("compared",)))
    for det, cfg in batch:
        name = cfg.get("cls", det)
        kinds_b = [("one-row-batch", False), ("extra-column", False), ("renamed-columns", True)]
        if cfg.get("cls") != "CDBD":
            kinds_b += [("permuted-columns", True), ("dropped-column", True)]
        else:
            kinds_b += [("setref-extra-column", False)]
        for kind, use_df in kinds_b:
            for k in ks[:3]:
                if det == "KdqTreeBatch" and k == 0 and kind != "one-row-batch":
                    continue
                if k == 0 and kind in ("permuted-columns", "dropped-column") and det != "HDM" and det != "NNDVI":
                    continue
                out.append(Job(f"noharm-{name}-{kind}-df{int(use_df)}-k{k}", "checks.c14:body_noharm",
                               {"det": det, "cfg": cfg, "kind": kind, "k": k, "use_df": use_df}, expect=("compared",)))
    # the univariate batch detector after plain inputs: a two-column DataFrame is refused by CDBD's own guard (the shared
    # validation does not width-check a first DataFrame - the known finding), must not be counted, and must leave the
    # remembered schema alone (seed C14-8)
    for db in (2, 3):
        for k in (1, 2):
            out.append(Job(f"noharm-CDBD-db{db}-extra-column-frame-k{k}", "checks.c14:body_noharm",
                           {"det": "HDM", "cfg": {"cls": "CDBD", "detect_batch": db, "statistic": "stdev"},
                            "kind": "extra-column-frame", "k": k, "use_df": False}, expect=("compared",)))
    out.append(Job("noharm-CDBD-first-reference-two-columns", "checks.c14:body_univariate_first_reference",
                   {"cfg": {"cls": "CDBD", "detect_batch": 2, "statistic": "stdev"}}, expect=("compared",)))
    # (3) containers
    N = 2 if q else 3
    for det, cfg in stream_x + label[:3]:
        for kind in ("list", "array", "series", "dataframe"):
            if det in ("DDM", "EDDM", "STEPD") and kind == "dataframe":
                continue
            out.append(Job(f"containers-{det}-{kind}", "checks.c14:body_containers",
                           {"det": det, "cfg": cfg, "kind": kind, "N": N}, expect=("compared",)))
    return out
