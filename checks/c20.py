"""C20 - drift injectors change only the window and columns they are asked to change.

B: the real injector classes run on object arrays / DataFrames of symbolic
cells; the window bounds 0 <= from <= to <= n are solver-driven case splits (so
empty and full windows are always included); shift factors, alpha, x0, class
values and probability vectors are symbolic.  Random choices are stubbed:
arbitrary signs for the random walk, arbitrary picks from the population handed
to np.random.choice (recorded), an arbitrary Dirichlet vector.
"""
import numpy as np
import pandas as pd

from symx.core import Sym, SymBool, cur
from symx.logic import b2i, between, iff, implies, ite, land, lnot, lor
from symx.run import Job

from . import stubs
from .common import obj_array, rebind, values_equal

PROPERTY = "C20"
ENCODED = [
    "menelaus.injection.injector:Injector._preprocess", "menelaus.injection.injector:Injector._postprocess",
    "menelaus.injection.feature_manipulation:FeatureShiftInjector.__call__",
    "menelaus.injection.feature_manipulation:FeatureSwapInjector.__call__",
    "menelaus.injection.label_manipulation:LabelSwapInjector.__call__",
    "menelaus.injection.label_manipulation:LabelJoinInjector.__call__",
    "menelaus.injection.label_manipulation:LabelProbabilityInjector.__call__",
    "menelaus.injection.label_manipulation:LabelDirichletInjector.__call__",
    "menelaus.injection.noise:BrownianNoiseInjector.__call__", "menelaus.injection.noise:BrownianNoiseInjector._random_walk",
]
BOUNDS = {
    "quick": "n<=3 rows x 3 columns of symbolic cells, ndarray and DataFrame containers, every window 0<=from<=to<=n, every "
             "column choice; LabelSwap/LabelJoin with symbolic integer classes; LabelProbability/Dirichlet with concrete labels "
             "in {0,1,2}, symbolic feature cells and symbolic probabilities, n<=4; the Dirichlet alpha dict lists the classes in descending "
             "order with distinct values",
    "thorough": "n<=4 rows (5 for the label resampling injectors)",
}
OUTSIDE = ("FeatureCoverInjector (pandas groupby(...).sample internals); that resampled class frequencies *statistically* follow "
           "the probabilities (the weight vector handed to the sampler is what is decided); larger data sets")
ASSUMPTIONS = [
    "np.random.choice returns arbitrary elements of the population it is given (any seed); np.random.dirichlet returns an "
    "arbitrary non-negative vector summing to 1; np.random.seed is a no-op",
    "cells are exact reals / integers; class labels of the resampling injectors are concrete because the code uses them as "
    "dictionary keys",
]
TRUSTED = ["z3", "numpy object-array slicing/copy semantics", "pandas DataFrame construction"]

COLS = ["a", "b", "c"]
# a frame whose integer column labels are not their positions (default labels after a column re-ordering): a label must be
# resolved through the frame's index, never used as a position
INT_LABELS = [2, 0, 1]


def _labels(container):
    return INT_LABELS if container == "frame-int" else COLS


def _data(ctx, n, container, int_col=None, concrete_col=None):
    rows = []
    for r in range(n):
        row = []
        for j in range(3):
            if concrete_col is not None and j == concrete_col[0]:
                row.append(concrete_col[1][r])
            elif j == int_col:
                row.append(ctx.int(f"c{r}_{j}"))
            else:
                row.append(ctx.real(f"c{r}_{j}"))
        rows.append(row)
    arr = obj_array(rows) if rows else np.empty((0, 3), dtype=object)
    if container in ("frame", "frame-int"):
        return pd.DataFrame(arr, columns=_labels(container)), arr
    return arr, arr


def _col(container, j):
    return _labels(container)[j] if container in ("frame", "frame-int") else j


def _window(ctx, n):
    f, t = ctx.int("from_index"), ctx.int("to_index")
    ctx.assume(land(0 <= f, f <= t, t <= n))
    return int(f), int(t)


def _warm_up(ctx, inj, warm, call):
    """re-use of one injector instance: a previous call on a data set of the *other* container kind (and another
    width) must not influence the checked call"""
    if not warm:
        return
    other = obj_array([[ctx.real(f"warm{r}_{j}") if j != 2 else 0 for j in range(4)] for r in range(2)])
    if warm == "frame":
        other = pd.DataFrame(other, columns=["a", "b", "c", "z"])
    call(inj, other, 0, 2, (lambda j: ["a", "b", "c", "z"][j]) if warm == "frame" else (lambda j: j))
    ctx.witness("reused-instance")


def _cells(out):
    return out.to_numpy() if isinstance(out, pd.DataFrame) else out


def _same_container(ctx, data, out, snapshot):
    ctx.prove(type(out) is type(data), "same-container-type")
    ctx.prove(_cells(out).shape == snapshot.shape, "same-shape")
    if isinstance(data, pd.DataFrame):
        ctx.prove(list(out.columns) == list(data.columns), "same-column-labels")
    ctx.prove(out is not data, "returns-a-new-object")
    # the input still holds the same cells
    now = _cells(data)
    ctx.prove(now.shape == snapshot.shape and all(now[idx] is snapshot[idx] for idx in np.ndindex(snapshot.shape)),
              "input-left-unchanged")


def _untouched(ctx, snapshot, out, f, t, cols):
    o = _cells(out)
    n = snapshot.shape[0]
    conds = []
    for r in range(n):
        for j in range(snapshot.shape[1]):
            if not (f <= r < t and j in cols):
                conds.append(ctx.eq(o[r, j], snapshot[r, j]) if not (o[r, j] is snapshot[r, j]) else True)
    ctx.prove(land(*conds), "cells-outside-window-or-columns-unchanged")


def body_feature_shift(ctx, n, container, col, warm=None):
    from menelaus.injection import FeatureShiftInjector

    data, snap0 = _data(ctx, n, container)
    snapshot = snap0.copy()
    f, t = _window(ctx, n)
    sf, alpha = ctx.real("shift_factor"), ctx.real("alpha")
    inj = FeatureShiftInjector()
    _warm_up(ctx, inj, warm, lambda i, d, a, b, cn: i(d, a, b, cn(col), sf, alpha))
    out = inj(data, f, t, _col(container, col), sf, alpha)
    _same_container(ctx, data, out, snapshot)
    _untouched(ctx, snapshot, out, f, t, {col})
    o = _cells(out)
    if t > f:
        mean = 0
        for r in range(f, t):
            mean = mean + snapshot[r, col]
        mean = mean / (t - f)
        ctx.prove(land(*[ctx.eq(o[r, col], snapshot[r, col] + sf * (alpha + mean)) for r in range(f, t)]),
                  "shift-by-factor-times-alpha-plus-window-mean")
    ctx.witness("empty" if t == f else ("full" if (f, t) == (0, n) else "inner"))


def body_feature_swap(ctx, n, container, c1, c2, warm=None):
    from menelaus.injection import FeatureSwapInjector

    data, snap0 = _data(ctx, n, container)
    snapshot = snap0.copy()
    f, t = _window(ctx, n)
    inj = FeatureSwapInjector()
    _warm_up(ctx, inj, warm, lambda i, d, a, b, cn: i(d, a, b, cn(c1), cn(c2)))
    out = inj(data, f, t, _col(container, c1), _col(container, c2))
    _same_container(ctx, data, out, snapshot)
    _untouched(ctx, snapshot, out, f, t, {c1, c2})
    o = _cells(out)
    ctx.prove(all(o[r, c1] is snapshot[r, c2] and o[r, c2] is snapshot[r, c1] for r in range(f, t)), "columns-exchanged-in-window")
    back = _cells(inj(out, f, t, _col(container, c1), _col(container, c2)))
    ctx.prove(all(back[idx] is snapshot[idx] for idx in np.ndindex(snapshot.shape)), "swap-twice-restores-input")
    ctx.witness("empty" if t == f else ("full" if (f, t) == (0, n) else "inner"))


def body_label_swap(ctx, n, container, join, warm=None):
    from menelaus.injection import LabelSwapInjector, LabelJoinInjector

    col = 2
    data, snap0 = _data(ctx, n, container, int_col=col)
    snapshot = snap0.copy()
    f, t = _window(ctx, n)
    k1, k2 = ctx.int("class_1"), ctx.int("class_2")
    if join:
        new = ctx.int("new_class")
        inj = LabelJoinInjector()
        _warm_up(ctx, inj, warm, lambda i, d, a, b, cn: i(d, a, b, cn(col), k1, k2, new))
        out = inj(data, f, t, _col(container, col), k1, k2, new)
    else:
        inj = LabelSwapInjector()
        _warm_up(ctx, inj, warm, lambda i, d, a, b, cn: i(d, a, b, cn(col), k1, k2))
        out = inj(data, f, t, _col(container, col), k1, k2)
    _same_container(ctx, data, out, snapshot)
    _untouched(ctx, snapshot, out, f, t, {col})
    o = _cells(out)
    for r in range(f, t):
        v = snapshot[r, col]
        if join:
            want = ite(lor(v == k1, v == k2), new, v)
        else:
            want = ite(v == k1, k2, ite(v == k2, k1, v))
        ctx.prove(ctx.eq(o[r, col], want), "classes-merged-in-window" if join else "classes-exchanged-in-window")
    if not join:
        back = _cells(LabelSwapInjector()(out, f, t, _col(container, col), k1, k2))
        ctx.prove(land(*[ctx.eq(back[idx], snapshot[idx]) for idx in np.ndindex(snapshot.shape)]), "label-swap-is-an-involution")
    ctx.witness("empty" if t == f else ("full" if (f, t) == (0, n) else "inner"))


def body_noise(ctx, n, container, col, warm=None):
    from menelaus.injection import noise as M

    data, snap0 = _data(ctx, n, container)
    snapshot = snap0.copy()
    f, t = _window(ctx, n)
    x0 = ctx.real("x0")

    choices = []

    def choice(a, *args, **kw):
        choices.append((list(a), args, kw))
        b = cur().bool("step_up")
        return Sym(__import__("z3").If(b.z, __import__("z3").IntVal(1), __import__("z3").IntVal(-1))) if cur().symbolic else (1 if b else -1)

    shim = stubs.NpShim(random=type("R", (), {"choice": staticmethod(choice), "seed": staticmethod(lambda s=None: None)}))
    with rebind(M, np=shim):
        inj = M.BrownianNoiseInjector()
        _warm_up(ctx, inj, warm, lambda i, d, a, b, cn: i(d, a, b, cn(col), x0))
        out = inj(data, f, t, _col(container, col), x0)
    _same_container(ctx, data, out, snapshot)
    _untouched(ctx, snapshot, out, f, t, {col})
    o = _cells(out)
    steps = t - f
    # the walk draws each step uniformly from {+1, -1} (an argument obligation: the draw itself is numpy's)
    ctx.prove(all(sorted(c[0]) == [-1, 1] and not c[1] and not c[2] for c in choices), "walk-steps-drawn-uniformly-from-plus-minus-one")
    if steps:
        w = [o[r, col] - snapshot[r, col] for r in range(f, t)]
        ctx.prove(ctx.eq(w[0], x0), "walk-starts-at-x0")
        for i in range(1, steps):
            d = w[i] - w[i - 1]
            ctx.prove(ctx.approx(d * d * steps, 1), "walk-steps-have-size-one-over-sqrt-steps")
    ctx.witness("empty" if t == f else ("full" if (f, t) == (0, n) else "inner"))


def _lp_run(ctx, M, inj_call, n, labels, snapshot, data, f, t, col, probs_for):
    """shared part of the resampling injectors; returns nothing"""


def body_label_probability(ctx, n, container, labels, spec_classes, dirichlet):
    from menelaus.injection import label_manipulation as M

    col = 2
    data, snap0 = _data(ctx, n, container, concrete_col=(col, labels))
    snapshot = snap0.copy()
    f, t = _window(ctx, n)
    classes = sorted(set(labels))
    probs = {}
    for k in spec_classes:
        p = ctx.real(f"p{k}")
        ctx.assume(between(0, p, 1))
        probs[k] = p
    tot = 0
    for p in probs.values():
        tot = tot + p
    if dirichlet:
        ctx.assume(tot == 1)
    else:
        ctx.assume(tot <= 1)
    rec = {}

    def choice(a, size=None, replace=True, p=None):
        rec["a"], rec["size"], rec["replace"], rec["p"] = list(a), size, replace, list(p)
        picks = []
        for i in range(size):
            k = cur().int("pick")
            cur().assume(between(0, k, len(rec["a"]) - 1))
            picks.append(rec["a"][int(k)])
        rec["picks"] = picks
        return np.array(picks, dtype=int)

    alpha_order = list(reversed(spec_classes))  # a dict whose keys are *not* in ascending order
    alpha = {k: float(spec_classes.index(k) + 1) for k in alpha_order}

    def dirich(alpha_values):
        rec["alpha"] = list(alpha_values)
        # the i-th drawn probability belongs to the class whose alpha is the i-th value handed over
        by_value = {v: k for k, v in alpha.items()}
        return [probs[by_value[v]] for v in alpha_values]

    shim = stubs.NpShim(random=type("R", (), {"choice": staticmethod(choice), "dirichlet": staticmethod(dirich)}))
    given = dict(probs)
    with rebind(M, np=shim):
        if dirichlet:
            out = M.LabelDirichletInjector()(data, f, t, _col(container, col), alpha)
            ctx.prove(sorted(rec.get("alpha", [])) == sorted(alpha.values()), "dirichlet-gets-the-alpha-values")
        else:
            out = M.LabelProbabilityInjector()(data, f, t, _col(container, col), probs)
    _same_container(ctx, data, out, snapshot)
    o = _cells(out)
    for r in list(range(0, f)) + list(range(t, n)):
        ctx.prove(all(o[r, j] is snapshot[r, j] for j in range(3)), "rows-outside-window-unchanged")
    if t > f:
        ctx.prove(sorted(rec["a"]) == list(range(f, t)), "population-is-exactly-the-window-rows")
        ctx.prove(rec["size"] == t - f and rec["replace"] is True, "one-draw-per-window-row-with-replacement")
        # weights: requested probability shared evenly inside a class, unspecified classes share the rest evenly,
        # any mass of classes absent from the window is spread evenly over all window rows
        missing = [k for k in classes if k not in given]
        rest = 1 - tot
        full = dict(given)
        for k in missing:
            full[k] = rest / len(missing)
        count = {k: sum(1 for r in range(f, t) if labels[r] == k) for k in classes}
        base = {r: (full[labels[r]] / count[labels[r]]) for r in range(f, t)}
        s = 0
        for r in base:
            s = s + base[r]
        left = (1 - s) / (t - f)
        wsum = 0
        for idx, r in enumerate(rec["a"]):
            ctx.prove(ctx.approx(rec["p"][idx], base[r] + left), "weights-follow-requested-probabilities")
            ctx.prove(rec["p"][idx] >= -1e-12, "weights-non-negative")
            wsum = wsum + rec["p"][idx]
        ctx.prove(ctx.approx(wsum, 1), "weights-sum-to-one")
        for i, r in enumerate(range(f, t)):
            src = rec["picks"][i]
            ctx.prove(all(o[r, j] is snapshot[src, j] for j in range(3)), "window-rows-are-copies-of-drawn-window-rows")
    ctx.witness("empty" if t == f else ("full" if (f, t) == (0, n) else "inner"))


def jobs(tier):
    q = tier == "quick"
    out = []
    ns = (0, 1, 2, 3) if q else (0, 1, 2, 3, 4)
    for n in ns:
        exp = ("empty",) + (("full",) if n >= 1 else ()) + (("inner",) if n >= 2 else ())
        for container in ("array", "frame"):
            for col in (0, 2):
                out.append(Job(f"shift-n{n}-{container}-c{col}", "checks.c20:body_feature_shift",
                               {"n": n, "container": container, "col": col}, expect=exp))
                out.append(Job(f"noise-n{n}-{container}-c{col}", "checks.c20:body_noise",
                               {"n": n, "container": container, "col": col}, expect=exp))
            for c1, c2 in ((0, 1), (2, 0)):
                out.append(Job(f"swap-n{n}-{container}-{c1}{c2}", "checks.c20:body_feature_swap",
                               {"n": n, "container": container, "c1": c1, "c2": c2}, expect=exp))
            for join in (False, True):
                out.append(Job(f"label{'join' if join else 'swap'}-n{n}-{container}", "checks.c20:body_label_swap",
                               {"n": n, "container": container, "join": join}, expect=exp))
    for n in (2,) if q else (2, 3):
        exp = ("empty", "full", "inner")
        out.append(Job(f"shift-n{n}-frame-int", "checks.c20:body_feature_shift", {"n": n, "container": "frame-int", "col": 0}, expect=exp))
        out.append(Job(f"noise-n{n}-frame-int", "checks.c20:body_noise", {"n": n, "container": "frame-int", "col": 1}, expect=exp))
        out.append(Job(f"swap-n{n}-frame-int", "checks.c20:body_feature_swap", {"n": n, "container": "frame-int", "c1": 0, "c2": 2}, expect=exp))
        for join in (False, True):
            out.append(Job(f"label{'join' if join else 'swap'}-n{n}-frame-int", "checks.c20:body_label_swap",
                           {"n": n, "container": "frame-int", "join": join}, expect=exp))
    # one injector instance re-used across container kinds
    for container, warm in (("array", "frame"), ("frame", "array")):
        exp = ("reused-instance", "empty", "full", "inner")
        out.append(Job(f"shift-reuse-{container}", "checks.c20:body_feature_shift", {"n": 2, "container": container, "col": 0, "warm": warm}, expect=exp))
        out.append(Job(f"noise-reuse-{container}", "checks.c20:body_noise", {"n": 2, "container": container, "col": 1, "warm": warm}, expect=exp))
        out.append(Job(f"swap-reuse-{container}", "checks.c20:body_feature_swap", {"n": 2, "container": container, "c1": 0, "c2": 1, "warm": warm}, expect=exp))
        for join in (False, True):
            out.append(Job(f"label{'join' if join else 'swap'}-reuse-{container}", "checks.c20:body_label_swap",
                           {"n": 2, "container": container, "join": join, "warm": warm}, expect=exp))
    label_sets = [[0], [0, 1], [1, 0, 1], [0, 1, 2], [0, 0, 1, 2]] + ([[2, 1, 1, 0, 2]] if not q else [])
    for labels in label_sets:
        n = len(labels)
        exp = ("empty", "full") + (("inner",) if n >= 2 else ())
        classes = sorted(set(labels))
        for spec in ([classes, classes[:1]] if len(classes) > 1 else [classes]):
            for container in ("array", "frame"):
                for dirichlet in (False, True):
                    if dirichlet and (spec != classes or container == "frame"):
                        continue
                    out.append(Job(f"labelprob-{''.join(map(str, labels))}-spec{''.join(map(str, spec))}-{container}-dir{int(dirichlet)}",
                                   "checks.c20:body_label_probability",
                                   {"n": n, "container": container, "labels": labels, "spec_classes": spec, "dirichlet": dirichlet},
                                   expect=exp, opts={"validate": 1, "stop_on_violation": False}))
    return out
