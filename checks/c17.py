"""C17 - a stricter confidence setting never makes a detector alarm earlier.

One-update relational lemma, discharged by z3 through the real update():
two copies of a detector in the same state that differ only in the detection
threshold (strict vs. loose, symbolic, ordered) take the same input;
 (i)  drift(strict) => drift(loose);
 (ii) if the loose one does not alarm, the two post-states are equal (except the parameter).
By induction over the history the strict run's first alarm is never earlier.
Scalar-state detectors: from an *arbitrary* state (unbounded history).  Heap /
batch detectors: along bounded histories from the constructor, with quantile
library calls replaced by stubs that are monotone in the level.
Second half: only the warning threshold differs -> drift decisions equal, a
strict warning implies a loose warning, the rest of the state equal.
"""
import copy

import numpy as np
import pandas as pd

from symx.core import Sym, SymBool, cur, sym_max
from symx.logic import b2i, between, iff, implies, ite, land, lnot, lor, state_is
from symx.run import Job

from . import c05, stubs
from .c14 import SKIP_KEYS
from .common import rebind, scalar, states_equal
from .drivers import DRIVERS

PROPERTY = "C17"
ENCODED = [
    "menelaus.change_detection.cusum:CUSUM.update", "menelaus.change_detection.page_hinkley:PageHinkley.update",
    "menelaus.concept_drift.ddm:DDM.update", "menelaus.concept_drift.eddm:EDDM.update",
    "menelaus.concept_drift.stepd:STEPD.update", "menelaus.change_detection.adwin:ADWIN._check_epsilon",
    "menelaus.change_detection.adwin:ADWIN._shrink_window", "menelaus.concept_drift.lfr:LinearFourRates.update",
    "menelaus.concept_drift.lfr:LinearFourRates._sim_bounds", "menelaus.data_drift.kdq_tree:KdqTreeDetector._get_critical_kld",
    "menelaus.data_drift.kdq_tree:KdqTreeDetector._evaluate_kdqtree", "menelaus.data_drift.nndvi:NNDVI._compute_drift_threshold",
    "menelaus.data_drift.nndvi:NNDVI.update", "menelaus.data_drift.histogram_density_method:HistogramDensityMethod._adaptive_threshold",
    "menelaus.data_drift.histogram_density_method:HistogramDensityMethod.update",
]
BOUNDS = {
    "quick": "one step from an arbitrary state: CUSUM (since in {0..2}, 3 directions), PageHinkley, DDM, EDDM, STEPD (L<=2); ADWIN: "
             "epsilon-cut monotone in delta (all arguments symbolic) + histories N<=7 with coupled cut answers; LFR N<=3; "
             "KdqTreeBatch / KdqTreeStreaming / NNDVI / HDDDM / CDBD (tstat and stdev): histories of <=4 batches (8 samples) of "
             "concrete placeholder data with symbolic thresholds; warning-threshold half: DDM, EDDM, STEPD one step, LFR N<=3",
    "thorough": "STEPD L<=3, ADWIN N<=9, LFR N<=4, batch histories <=6",
}
OUTSIDE = ("statistical meaning of the thresholds; IEEE rounding; histories longer than the bound for the heap/batch detectors; "
           "PageHinkley with a negative running mean is a recorded known finding")
ASSUMPTIONS = [
    "np.quantile / np.percentile / scipy norm.ppf / t.ppf are non-decreasing in the level for fixed data (monotone stubs); "
    "log is monotone (pairwise-instantiated uninterpreted function); random draws are deterministic functions of their "
    "arguments shared by both runs (same seed schedule)",
    "batch/stream data of the kdq/NNDVI/HDM runs are concrete placeholder batches: only the thresholds are symbolic there",
    "pre-states of the one-step lemmas satisfy the representation invariants of C01/C05",
]
TRUSTED = ["z3", "numpy/scipy/sklearn on the concrete placeholder data"]


def _lemma(ctx, A, B, skip, label_suffix=""):
    """A strict, B loose, both already updated"""
    dA, dB = state_is(A.drift_state, "drift"), state_is(B.drift_state, "drift")
    ctx.prove(implies(dA, dB), "strict-implies-loose" + label_suffix)
    if dB is False or dB is True:
        if dB is False:
            ctx.prove(states_equal(ctx, vars(A), vars(B), skip=skip), "equal-state-until-loose-alarms")
    else:
        if not bool(dB):
            ctx.prove(states_equal(ctx, vars(A), vars(B), skip=skip), "equal-state-until-loose-alarms")
    ctx.witness("lemma")


# --------------------------------------------------------------------------
# scalar detectors: one step from an arbitrary state


def body_cusum(ctx, burn, direction, since):
    from menelaus.change_detection import cusum as M

    ts, tl = ctx.real("threshold_strict"), ctx.real("threshold_loose")
    ctx.assume(ts >= tl)
    target, sd = ctx.real("target"), ctx.real("sd_hat")
    ctx.assume(sd > 0)
    A = M.CUSUM(target=target, sd_hat=sd, burn_in=burn, delta=ctx.real("delta"), threshold=ts, direction=direction)
    total = ctx.int("total")
    ctx.assume(total >= since)
    A._stream = [np.array([[ctx.real(f"obs{i}")]], dtype=object) for i in range(since)]
    A._upper_bound = [0] + [ctx.real(f"uh{i}") for i in range(since)]
    A._lower_bound = [0] + [ctx.real(f"ul{i}") for i in range(since)]
    for v in A._upper_bound[1:] + A._lower_bound[1:]:
        ctx.assume(v >= 0)
    A._total_samples, A._samples_since_reset = total, since
    B = copy.deepcopy(A)
    B.threshold = tl
    x = ctx.real("x")
    with rebind(M, max=sym_max):
        A.update(x)
        B.update(x)
    _lemma(ctx, A, B, ("threshold",))


def body_ph(ctx, direction):
    from menelaus.change_detection import PageHinkley

    ts, tl = ctx.real("threshold_strict"), ctx.real("threshold_loose")
    ctx.assume(land(ts >= tl, tl >= 0))
    burn = ctx.int("burn_in")
    A = PageHinkley(delta=ctx.real("delta"), threshold=ts, burn_in=burn, direction=direction)
    total, since = ctx.int("total"), ctx.int("since")
    ctx.assume(land(since >= 0, since <= total))
    A._total_samples, A._samples_since_reset = total, since
    A._mean, A._sum, A._min, A._max = ctx.real("mean"), ctx.real("sum"), ctx.real("min"), ctx.real("max")
    ctx.assume(land(A._min <= A._sum, A._sum <= A._max))
    B = copy.deepcopy(A)
    B.threshold = tl
    x = ctx.real("x")
    A.update(x)
    B.update(x)
    known = land(scalar(A._mean) < 0, tl == 0)
    skip = ("threshold", "_theta_threshold", "_drift_detected")
    if bool(known):
        # recorded known finding: the bound is threshold * running mean.  With a negative running mean every
        # positive threshold gives a negative bound (always exceeded), while threshold 0 gives the bound 0: the
        # stricter setting alarms where threshold 0 does not.  Keyed to exactly this situation (loose threshold 0,
        # negative running mean); for positive loose thresholds the lemma must hold even with a negative mean.
        _lemma(ctx, A, B, skip, "[page-hinkley-negative-running-mean-loose-threshold-zero]")
        ctx.witness("negative-mean")
    else:
        _lemma(ctx, A, B, skip)


def body_label_step(ctx, det, pre, aux, which, concrete=None):
    if det == "DDM":
        A, _ = c05.make_ddm_state(ctx, pre, aux)
        name, larger_is_stricter = ("drift_scale", True) if which == "drift" else ("warning_scale", True)
        M = fake = None
    elif det == "EDDM":
        A, _ = c05.make_eddm_state(ctx, pre, aux)
        name, larger_is_stricter = ("drift_thresh", False) if which == "drift" else ("warning_thresh", False)
        M = fake = None
    else:
        A, _, M, fake = c05.make_stepd_state(ctx, pre, aux)
        name, larger_is_stricter = ("alpha_drift", False) if which == "drift" else ("alpha_warning", False)
    if concrete is not None:
        # concrete threshold pairs, including the legal boundary configuration "no warning zone" (both thresholds equal,
        # also as 3 and 3.0): proxies cannot be dictionary keys or set members, so code that keys on the threshold values
        # only runs with real numbers (seed C17-8); the detector state stays symbolic
        other = {"drift_scale": "warning_scale", "warning_scale": "drift_scale", "drift_thresh": "warning_thresh",
                 "warning_thresh": "drift_thresh", "alpha_drift": "alpha_warning", "alpha_warning": "alpha_drift"}[name]
        setattr(A, other, concrete["other"])
        setattr(A, name, concrete["strict"])
        strict, loose = concrete["strict"], concrete["loose"]
        assert (loose <= strict) if larger_is_stricter else (loose >= strict)
    else:
        strict = getattr(A, name)
        loose = ctx.real(name + "_loose")
        ctx.assume(loose <= strict if larger_is_stricter else loose >= strict)
    B = copy.deepcopy(A)
    setattr(B, name, loose)
    if which == "warning":
        # the two runs may already differ in their warning bookkeeping: B may be in warning where A is not,
        # and their first-warning / run-start indices are independent
        if pre is None:
            bw = ctx.bool("loose_already_warning")
            if bool(bw):
                B._drift_state = "warning"
                total, since = A._total_samples, A._samples_since_reset
                fw = ctx.int("loose_first_warning")
                ctx.assume(between(total - since, fw, total - 1))
                if det == "STEPD":
                    B._retraining_recs = np.array([fw, total - 1], dtype=object)
                    ctx.assume(since >= 2 * A.window_size)
                else:
                    B._retraining_recs = [fw, None]
                    if det == "DDM":
                        ctx.assume(since >= A.n_threshold)
                    else:
                        ctx.assume(A._n_errors >= A.n_threshold)
    yt, yp = ctx.int("y_true"), ctx.int("y_pred")
    if M is not None:
        with rebind(M, scipy=fake):
            A.update(yt, yp)
            B.update(yt, yp)
    else:
        A.update(yt, yp)
        B.update(yt, yp)
    if which == "drift":
        _lemma(ctx, A, B, (name,))
    else:
        dA, dB = state_is(A.drift_state, "drift"), state_is(B.drift_state, "drift")
        wA, wB = state_is(A.drift_state, "warning"), state_is(B.drift_state, "warning")
        ctx.prove(iff(dA, dB), "warning-threshold-does-not-move-drift")
        ctx.prove(implies(wA, wB), "loosening-never-removes-a-warning")
        ctx.prove(states_equal(ctx, vars(A), vars(B), skip=(name, "_drift_state", "_retraining_recs")),
                  "warning-threshold-leaves-statistics-equal")
        ctx.witness("lemma")


# --------------------------------------------------------------------------
# ADWIN


def body_adwin_eps(ctx, conservative):
    from menelaus.change_detection import adwin as M

    thr = ctx.int("subwindow_size_thresh")
    n0, n1 = ctx.int("n0"), ctx.int("n1")
    t0, t1 = ctx.real("total0"), ctx.real("total1")
    var_sum = ctx.real("curr_variance")
    ds, dl = ctx.real("delta_strict"), ctx.real("delta_loose")
    ctx.assume(land(thr >= 1, n0 >= thr, n1 >= thr, ds > 0, ds <= dl, dl <= 1, var_sum >= 0))
    with rebind(M, zeros=stubs.object_zeros):
        A = M.ADWIN(delta=ds, subwindow_size_thresh=thr, conservative_bound=conservative)
        B = M.ADWIN(delta=dl, subwindow_size_thresh=thr, conservative_bound=conservative)
    for d in (A, B):
        d._window_size, d._curr_variance, d._curr_total = n0 + n1, var_sum, t0 + t1
    cutA = A._check_epsilon(n0, t0, n1, t1)
    cutB = B._check_epsilon(n0, t0, n1, t1)
    ctx.prove(implies(cutA, cutB), "epsilon-cut-monotone-in-delta")
    ctx.witness("lemma")


def body_adwin_eps_delta_zero(ctx, conservative, zero, loose):
    """the strictest legal confidence, delta = 0 (spelled 0 or 0.0): the cut is infinite, so the detector must never cut
    where a detector with any positive delta does not (seed C17-9 replaced an exact zero by machine epsilon, which made
    delta = 0 looser than delta = 1e-300).  Sizes and both deltas concrete (the logarithms are then ordinary doubles), totals and
    variance symbolic."""
    import warnings

    from menelaus.change_detection import adwin as M

    n0, n1, thr = 3, 4, 1
    t0, t1 = ctx.real("total0"), ctx.real("total1")
    # the variance multiplies an infinite confidence term in the ordinary bound: a positive constant there (0 x inf is
    # not a number); symbolic in the conservative bound, which does not use it
    var_sum = ctx.real("curr_variance") if conservative else 2.5
    dl = loose  # concrete as well: a symbolic delta sits inside the (uninterpreted) logarithm and would not replay
    ctx.assume(land(var_sum >= 0))
    with rebind(M, zeros=stubs.object_zeros):
        A = M.ADWIN(delta=zero, subwindow_size_thresh=thr, conservative_bound=conservative)
        B = M.ADWIN(delta=dl, subwindow_size_thresh=thr, conservative_bound=conservative)
    for d in (A, B):
        d._window_size, d._curr_variance, d._curr_total = n0 + n1, var_sum, t0 + t1
    with warnings.catch_warnings():
        warnings.simplefilter("ignore")
        cutA = A._check_epsilon(n0, t0, n1, t1)
    cutB = B._check_epsilon(n0, t0, n1, t1)
    ctx.prove(implies(cutA, cutB), "epsilon-cut-monotone-in-delta")
    ctx.witness("lemma")


def body_adwin_hist(ctx, N, cfg):
    with DRIVERS["ADWIN"](ctx, **cfg) as drv:
        A, B = drv.det, drv.twin()
        memo = stubs.Memo()

        def loose(det):
            return lambda n0, t0, n1, t1: memo.get("cutL", (n0, t0, n1, t1, det._window_size), lambda: cur().bool("cut_loose"))

        def strict(det):
            def f(n0, t0, n1, t1):
                def make():
                    b = cur().bool("cut_strict")
                    bl = memo.get("cutL", (n0, t0, n1, t1, det._window_size), lambda: cur().bool("cut_loose"))
                    cur().assume_unchecked(implies(b, bl))  # the epsilon-cut lemma
                    return b
                return memo.get("cutS", (n0, t0, n1, t1, det._window_size), make)
            return f

        A._check_epsilon, B._check_epsilon = strict(A), loose(B)
        for i in range(N):
            x = drv.fresh_input(i)
            A.update(x)
            B.update(x)
            dB = state_is(B.drift_state, "drift")
            ctx.prove(implies(state_is(A.drift_state, "drift"), dB), "strict-implies-loose")
            if dB is True:
                ctx.witness("loose-alarmed")
                return
            ctx.prove(states_equal(ctx, vars(A), vars(B), skip=SKIP_KEYS), "equal-state-until-loose-alarms")
            ctx.prove(ctx.eq(A.mean(), B.mean()), "equal-state-until-loose-alarms")
        ctx.witness("lemma")


# --------------------------------------------------------------------------
# LFR (real _sim_bounds with monotone percentile)


def _lfr_pair(ctx, which):
    from menelaus.concept_drift import lfr as M

    eta = ctx.real("eta")
    ctx.assume(land(eta > 0, eta < 1))
    lv_s, lv_l, other = ctx.real("level_strict"), ctx.real("level_loose"), ctx.real("other_level")
    ctx.assume(land(lv_s > 0, lv_s <= lv_l, lv_l < 0.5, other > 0, other < 0.5))
    mk = lambda lv: M.LinearFourRates(time_decay_factor=eta, burn_in=0, num_mc=2, rates_tracked=["ppv"],  # noqa: E731
                                      **({"detect_level": lv, "warning_level": other} if which == "drift"
                                         else {"warning_level": lv, "detect_level": other}))
    return M, mk(lv_s), mk(lv_l)


def body_lfr(ctx, N, which):
    M, A, B = _lfr_pair(ctx, which)
    pct = stubs.MonotoneQuantile("percentile")
    draws = stubs.Memo()

    def binomial(n, p, size):
        # a fixed draw per (p, size, call position): both runs see the same schedule
        k = len([c for c in draws.calls if c[0] == "binom" and stubs.keyof(c[1]) == stubs.keyof((p, size))])
        return draws.get("binom", (p, size), lambda: np.array([(j + 1) % 2 for j in range(size)]))

    shim = stubs.NpShim(percentile=lambda v, q: pct(list(v), q), random=type("R", (), {"binomial": staticmethod(binomial)}))
    with rebind(M, np=shim):
        for i in range(N):
            yt, yp = ctx.int(f"yt{i}"), ctx.int(f"yp{i}")
            ctx.assume(land(between(0, yt, 1), between(0, yp, 1)))
            A.update(yt, yp)
            B.update(yt, yp)
            dA, dB = state_is(A.drift_state, "drift"), state_is(B.drift_state, "drift")
            if which == "drift":
                ctx.prove(implies(dA, dB), "strict-implies-loose")
                if dB is True:
                    ctx.witness("loose-alarmed")
                    return
                ctx.prove(states_equal(ctx, vars(A), vars(B), skip=("detect_level", "_bounds")), "equal-state-until-loose-alarms")
            else:
                ctx.prove(dA is dB or iff(dA, dB), "warning-threshold-does-not-move-drift")
                ctx.prove(implies(state_is(A.drift_state, "warning"), state_is(B.drift_state, "warning")),
                          "loosening-never-removes-a-warning")
                if dB is True:
                    return
        ctx.witness("lemma")


# --------------------------------------------------------------------------
# batch / stream data-drift detectors on concrete placeholder data, symbolic thresholds


def _batches(n, rows, cols, seed=7):
    rs = np.random.RandomState(seed)
    out = []
    for k in range(n):
        out.append(np.round(rs.rand(rows, cols) * 4 + (k % 3), 2))
    return out


def body_kdq(ctx, stream, N):
    from menelaus.data_drift import kdq_tree as M

    a_s, a_l = ctx.real("alpha_strict"), ctx.real("alpha_loose")
    ctx.assume(land(a_s > 0, a_s <= a_l, a_l < 1))
    q = stubs.MonotoneQuantile("critical_value")
    # bootstrap draws: the real numpy generator, re-seeded identically before the corresponding update of
    # either detector (the "same random seed schedule" of the statement)
    shim = stubs.NpShim(quantile=lambda v, level, method=None: q([float(x) for x in v], level))
    with rebind(M, np=shim):
        if stream:
            mk = lambda a: M.KdqTreeStreaming(window_size=3, persistence=0.4, alpha=a, bootstrap_samples=4, count_ubound=1)  # noqa: E731
            data = [b for b in _batches(N, 1, 2)]
        else:
            mk = lambda a: M.KdqTreeBatch(alpha=a, bootstrap_samples=4, count_ubound=1)  # noqa: E731
            data = _batches(N, 4, 2)
        A, B = mk(a_s), mk(a_l)
        for i, X in enumerate(data):
            np.random.seed(1000 + i)
            A.update(X)
            np.random.seed(1000 + i)
            B.update(X)
            dB = state_is(B.drift_state, "drift")
            ctx.prove(implies(state_is(A.drift_state, "drift"), dB), "strict-implies-loose")
            if dB is True:
                ctx.witness("loose-alarmed")
                return
            ctx.prove(land(A.drift_state is B.drift_state, ctx.eq(A._test_dist, B._test_dist) if A._test_dist is not None else B._test_dist is None,
                           # streaming: the run of consecutive exceedances of the strict detector is never longer
                           getattr(A, "_drift_counter", 0) <= getattr(B, "_drift_counter", 0),
                           A.samples_since_reset == B.samples_since_reset if stream else A.batches_since_reset == B.batches_since_reset),
                      "equal-state-until-loose-alarms")
        ctx.witness("lemma")


def body_nndvi(ctx, N):
    from menelaus.data_drift import nndvi as M

    a_s, a_l = ctx.real("alpha_strict"), ctx.real("alpha_loose")
    ctx.assume(land(a_s > 0, a_s <= a_l, a_l < 1))
    q = stubs.MonotoneQuantile("normal_quantile")
    import scipy.stats as real

    fake_norm = type("N", (), {"fit": staticmethod(real.norm.fit),
                               "ppf": staticmethod(lambda level, loc=0, scale=1: q((float(loc), float(scale)), level))})
    perm_calls = {"n": 0}

    def permutation(v):
        return np.roll(np.asarray(v), 1 + (len(v) // 2))

    shim = stubs.NpShim(random=type("R", (), {"permutation": staticmethod(permutation)}))
    with rebind(M, np=shim, norm=fake_norm):
        A, B = M.NNDVI(k_nn=2, sampling_times=3, alpha=a_s), M.NNDVI(k_nn=2, sampling_times=3, alpha=a_l)
        data = _batches(N + 1, 5, 2)
        A.set_reference(data[0])
        B.set_reference(data[0])
        for X in data[1:]:
            A.update(X)
            B.update(X)
            dB = state_is(B.drift_state, "drift")
            ctx.prove(implies(state_is(A.drift_state, "drift"), dB), "strict-implies-loose")
            if dB is True:
                ctx.witness("loose-alarmed")
                return
            ctx.prove(land(A.drift_state is B.drift_state, bool(np.array_equal(A.reference_batch, B.reference_batch)),
                           A.batches_since_reset == B.batches_since_reset), "equal-state-until-loose-alarms")
        ctx.witness("lemma")


def body_hdm(ctx, cls, db, stat, N):
    from menelaus.data_drift import histogram_density_method as M
    from menelaus.data_drift import HDDDM, CDBD

    s_s, s_l = ctx.real("significance_strict"), ctx.real("significance_loose")
    if stat == "tstat":
        ctx.assume(land(s_s > 0, s_s <= s_l, s_l < 1))  # smaller significance = stricter
    else:
        ctx.assume(land(s_s >= s_l, s_l >= 0))  # more standard deviations = stricter
    q = stubs.MonotoneQuantile("t_quantile")
    import scipy.stats as real

    fake_scipy = type("S", (), {"stats": type("St", (), {"t": type("T", (), {"ppf": staticmethod(lambda level, dof: q(int(dof), level))})})})
    memo = stubs.Memo()
    K = HDDDM if cls == "HDDDM" else CDBD
    cols = 2 if cls == "HDDDM" else 1
    mk = lambda sig: K(detect_batch=db, statistic=stat, significance=sig, subsets=3)  # noqa: E731
    A, B = mk(s_s), mk(s_l)
    for d in (A, B):
        def est(reference, num_subsets, mins, maxes):
            def make():
                r = cur().real("eps0")
                cur().assume_unchecked(r >= 0)
                return r
            return memo.get("eps0", (reference, num_subsets), make)
        d._estimate_initial_epsilon = est
    data = _batches(N + 1, 6, cols)
    with rebind(M, scipy=fake_scipy):
        A.set_reference(data[0])
        B.set_reference(data[0])
        for X in data[1:]:
            A.update(X)
            B.update(X)
            dB = state_is(B.drift_state, "drift")
            ctx.prove(implies(state_is(A.drift_state, "drift"), dB), "strict-implies-loose")
            if dB is True:
                ctx.witness("loose-alarmed")
                return
            ctx.prove(land(A.drift_state is B.drift_state, A.batches_since_reset == B.batches_since_reset,
                           A.reference_n == B.reference_n, ctx.eq(A.current_distance, B.current_distance),
                           ctx.eq(A.total_epsilon, B.total_epsilon), len(A.epsilon) == len(B.epsilon)),
                      "equal-state-until-loose-alarms")
        ctx.witness("lemma")


def jobs(tier):
    q = tier == "quick"
    out = []
    for burn in (1, 2):
        for direction in (None, "positive", "negative"):
            for since in (0, 1, 2):
                out.append(Job(f"cusum-b{burn}-{direction}-s{since}", "checks.c17:body_cusum",
                               {"burn": burn, "direction": direction, "since": since}, expect=("lemma",)))
    for direction in ("positive", "negative"):
        out.append(Job(f"ph-{direction}", "checks.c17:body_ph", {"direction": direction}, expect=("lemma", "negative-mean"),
                       opts={"stop_on_violation": False}))
    for which in ("drift", "warning"):
        for det in ("DDM", "EDDM"):
            for pre in (None, "warning"):
                for r0 in (0, 1):
                    if pre == "warning" and not r0:
                        continue
                    out.append(Job(f"{det.lower()}-{which}-{pre}-{r0}", "checks.c17:body_label_step",
                                   {"det": det, "pre": pre, "aux": r0, "which": which}, expect=("lemma",)))
        for pre in (None, "warning"):
            for L in range(0 if pre is None else 1, 3 if q else 4):
                out.append(Job(f"stepd-{which}-{pre}-L{L}", "checks.c17:body_label_step",
                               {"det": "STEPD", "pre": pre, "aux": L, "which": which}, expect=("lemma",)))
    # concrete threshold pairs around "no warning zone" (equal thresholds; int vs float spellings of the same number)
    conc = {
        ("DDM", "drift"): [{"other": 3, "strict": 4, "loose": 3.0}, {"other": 3.0, "strict": 3.5, "loose": 3}],
        ("DDM", "warning"): [{"other": 3, "strict": 3.0, "loose": 2}, {"other": 3, "strict": 3, "loose": 1}],
        ("EDDM", "drift"): [{"other": 0.9, "strict": 0.8, "loose": 0.9}, {"other": 1, "strict": 0.5, "loose": 1.0}],
        ("EDDM", "warning"): [{"other": 0.9, "strict": 0.9, "loose": 0.95}, {"other": 1, "strict": 1.0, "loose": 2}],
        ("STEPD", "drift"): [{"other": 0.5, "strict": 0.25, "loose": 0.5}, {"other": 1, "strict": 0.5, "loose": 1.0}],
        ("STEPD", "warning"): [{"other": 0.5, "strict": 0.5, "loose": 0.75}, {"other": 1, "strict": 1.0, "loose": 2}],
    }
    for (det, which), pairs in conc.items():
        for i, pair in enumerate(pairs):
            out.append(Job(f"{det.lower()}-{which}-concrete-thresholds-{i}", "checks.c17:body_label_step",
                           {"det": det, "pre": None, "aux": 1, "which": which, "concrete": pair}, expect=("lemma",)))
    for cons in (False, True):
        for zero, loose in ((0, 1e-300), (0.0, 1e-30), (0.0, 0.002)):
            out.append(Job(f"adwin-epsilon-delta-{zero!r}-vs-{loose!r}-conservative{int(cons)}", "checks.c17:body_adwin_eps_delta_zero",
                           {"conservative": cons, "zero": zero, "loose": loose}, expect=("lemma",), opts={"validate": 1}))
    for cons in (False, True):
        out.append(Job(f"adwin-epsilon-monotone-conservative{int(cons)}", "checks.c17:body_adwin_eps", {"conservative": cons},
                       expect=("lemma",), opts={"validate": 0}))
    for mb in (1, 2):
        out.append(Job(f"adwin-hist-mb{mb}", "checks.c17:body_adwin_hist",
                       {"N": 7 if q else 9, "cfg": {"max_buckets": mb, "new_sample_thresh": 1, "window_size_thresh": 0,
                                                     "subwindow_size_thresh": 1}},
                       expect=("lemma", "loose-alarmed"), opts={"validate": 1}))
    for which in ("drift", "warning"):
        out.append(Job(f"lfr-{which}", "checks.c17:body_lfr", {"N": 3 if q else 4, "which": which}, expect=("lemma",),
                       opts={} if q else {"wall_budget_s": 1800}))  # N=4 takes about 12 minutes
    nb = 4 if q else 6
    out.append(Job("kdqbatch", "checks.c17:body_kdq", {"stream": False, "N": nb}, expect=("lemma", "loose-alarmed")))
    out.append(Job("kdqstream", "checks.c17:body_kdq", {"stream": True, "N": 2 * nb + 2}, expect=("lemma",)))
    out.append(Job("nndvi", "checks.c17:body_nndvi", {"N": nb}, expect=("lemma", "loose-alarmed")))
    for cls in ("HDDDM", "CDBD"):
        for db in (1, 2, 3):
            for stat in ("tstat", "stdev"):
                out.append(Job(f"hdm-{cls}-db{db}-{stat}", "checks.c17:body_hdm",
                               {"cls": cls, "db": db, "stat": stat, "N": nb + (1 if db == 3 else 0)}, expect=("lemma",)))
    return out
