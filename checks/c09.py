"""C09 - kdq-tree detectors alarm exactly when leaf divergence exceeds a bootstrap bound.

B (decision logic): the real KdqTreeStreaming / KdqTreeBatch update,
_evaluate_kdqtree, _inner_set_reference and set_reference run with the
partitioner replaced by a recording stub whose divergence is a symbolic function
of (reference rows, accumulated test rows) and with a symbolic critical value
per reference; the run is compared with the state machine of the statement,
including *which rows* reach build and fill.
A (critical value): the real _get_critical_kld with recorded random.choice /
entropy / quantile: draw size, draw distribution, halves, per-half corrected
distributions over all leaves in leaf order, quantile level 1 - alpha.
"""
import numpy as np
import pandas as pd

from symx.core import Sym, SymBool, cur
from symx.logic import b2i, between, iff, implies, ite, land, lnot, lor, state_is
from symx.run import Job

from . import stubs
from .common import obj_array, rebind, values_equal
from .drivers import DRIVERS, FakeKdqPartitioner

PROPERTY = "C09"
ENCODED = [
    "menelaus.data_drift.kdq_tree:KdqTreeDetector._evaluate_kdqtree", "menelaus.data_drift.kdq_tree:KdqTreeDetector._inner_set_reference",
    "menelaus.data_drift.kdq_tree:KdqTreeDetector._get_critical_kld", "menelaus.data_drift.kdq_tree:KdqTreeDetector.reset",
    "menelaus.data_drift.kdq_tree:KdqTreeStreaming.update", "menelaus.data_drift.kdq_tree:KdqTreeStreaming.reset",
    "menelaus.data_drift.kdq_tree:KdqTreeBatch.update", "menelaus.data_drift.kdq_tree:KdqTreeBatch.set_reference",
]
BOUNDS = {
    "quick": "streaming: window_size in {1,2,3}, persistence symbolic >=0, N<=3w+4 symbolic samples (2-D rows); batch: N<=5 batches, "
             "with and without an explicit set_reference; critical value: 2..4 leaves, sample sizes 1..3, bootstrap_samples<=3, "
             "symbolic alpha, solver-chosen draws at the first position of each half (fixed pattern elsewhere)",
    "thorough": "streaming N<=3w+6, batch N<=6, bootstrap_samples<=4",
}
OUTSIDE = ("the partitioner itself (C08) and the KL divergence (scipy); statistical quality of the bootstrap bound; longer streams")
ASSUMPTIONS = [
    "decision-logic runs: KDQTreePartitioner replaced by a recording stub; divergence = uninterpreted function of (build rows, "
    "filled rows), critical value = uninterpreted function of (leaf counts, sample size, build rows)",
    "critical-value runs: np.random.choice returns arbitrary indices of its population (any seed); scipy.stats.entropy and "
    "np.quantile are recorded and return fresh values; numpy unique / pandas merge run for real on the concrete draws",
]
TRUSTED = ["z3", "numpy.unique / pandas merge on concrete integer draws"]


def _rows_equal(ctx, a, b):
    a, b = np.asarray(a, dtype=object), np.asarray(b, dtype=object)
    if a.shape != b.shape:
        return False
    return all(x is y or (not isinstance(x, Sym) and not isinstance(y, Sym) and x == y) for x, y in zip(a.reshape(-1), b.reshape(-1)))


def body_stream(ctx, w, N, reset_at=None):
    with DRIVERS["KdqTreeStreaming"](ctx, window_size=w, dim=2) as drv:
        d = drv.det
        pers = drv.params["persistence"]
        epoch = []  # rows of the current epoch
        run = 0
        crit = None
        state = None
        for i in range(N):
            if state == "drift":
                epoch, run, crit, state = [], 0, None, None
            if reset_at is not None and i == reset_at:
                # an explicit reset() by the user starts a new epoch just like the automatic one
                d.reset()
                epoch, run, crit, state = [], 0, None, None
                ctx.prove(d.drift_state is None and d.samples_since_reset == 0, "manual-reset-clears-state")
                ctx.witness("manual-reset")
            nlog = len(drv.log)
            x = drv.step(i)
            epoch.append(x)
            pos = len(epoch)
            new = drv.log[nlog:]
            builds = [e for e in new if e[0] == "build"]
            fills = [e for e in new if e[0] == "fill"]
            if pos < w:
                ctx.prove(not builds and not fills, "no-tree-before-the-window-is-full")
                ctx.prove(d.drift_state is None, "silent-while-building-reference")
            elif pos == w:
                ctx.prove(len(builds) == 1 and not fills, "tree-built-when-window-completes")
                if builds:
                    ctx.prove(_rows_equal(ctx, builds[0][1], np.vstack(epoch[:w])), "tree-built-from-first-window_size-rows-of-epoch")
                ctx.prove(len(drv.crit_calls) >= 1 and drv.crit_calls[-1][1] == w, "critical-value-sample-size-is-window_size")
                crit = drv.crit_calls[-1][2]
                ctx.prove(d.drift_state is None, "silent-while-building-reference")
                ctx.witness("reference-built")
            else:
                ctx.prove(not builds and len(fills) == 1, "each-test-sample-filled-once")
                if fills:
                    ctx.prove(_rows_equal(ctx, fills[0][1], x) and fills[0][2] == "test" and fills[0][3] is False,
                              "test-sample-accumulated-under-test-id")
                ntest = pos - w
                if ntest < w:
                    ctx.prove(d.drift_state is None, "silent-until-a-further-window-has-arrived")
                    ctx.prove(not [e for e in new if e[0] == "kl"], "no-evaluation-before-test-window-full")
                else:
                    # expected divergence: function of the reference rows and all accumulated test rows
                    want = drv.memo.get("kl", (np.vstack(epoch[:w]), [(r, "test") for r in epoch[w:]], "build", "test"),
                                        lambda: cur().real("kl_unexpected"))
                    exceeds = want > crit
                    run = ite(exceeds, run + 1, 0)
                    drift = run > pers * w
                    ctx.prove(iff(state_is(d.drift_state, "drift"), drift), "drift-iff-exceedance-persisted-in-a-row")
                    ctx.prove(ctx.eq(d._drift_counter, run), "consecutive-exceedance-counter")
                    state = "drift" if state_is(d.drift_state, "drift") is True else None
                    if state == "drift":
                        ctx.witness("drift")
                    elif bool(lnot(exceeds)) and i > 0:
                        ctx.witness("dip")


def body_batch(ctx, N, set_ref, reset_at=None, sizes=None):
    """sizes: rows per batch (cycled) - references of different sizes within one history (seed C09-9 froze the
    bootstrap sample size at the size of the first reference)"""
    with DRIVERS["KdqTreeBatch"](ctx, dim=2, rows=2) as drv:
        d = drv.det
        ref = None
        crit = None
        state = None
        if set_ref:
            R = drv.fresh_batch("ref")
            d.set_reference(R)
            ref = R
            ctx.prove(drv.log and drv.log[-1][0] == "build" and _rows_equal(ctx, drv.log[-1][1], R), "set_reference-builds-from-given-rows")
            crit = drv.crit_calls[-1][2]
            ctx.prove(drv.crit_calls[-1][1] == len(R), "critical-value-sample-size-is-reference-size")
        prev = None
        for i in range(N):
            if reset_at is not None and i == reset_at:
                d.reset()
                ref, crit, state = None, None, None  # the next batch builds a new reference on its own
                ctx.witness("manual-reset")
            nlog = len(drv.log)
            ncrit = len(drv.crit_calls)
            if sizes:
                drv.cfg["rows"] = sizes[i % len(sizes)]
            x = drv.step(i)
            new = drv.log[nlog:]
            builds = [e for e in new if e[0] == "build"]
            fills = [e for e in new if e[0] == "fill"]
            if state == "drift":
                # the drifted batch (same rows) is what the new reference is built from
                ctx.prove(len(builds) == 1 and _rows_equal(ctx, builds[0][1], prev), "drifted-batch-becomes-the-reference")
                ref, crit = prev, drv.crit_calls[ncrit][2] if len(drv.crit_calls) > ncrit else None
                ctx.prove(crit is not None, "critical-value-recomputed-for-new-reference")
                ctx.prove(len(drv.crit_calls) > ncrit and drv.crit_calls[ncrit][1] == len(prev),
                          "critical-value-sample-size-is-reference-size")
                ctx.witness("after-drift")
                builds = []
            if ref is None:
                ctx.prove(len(builds) == 1 and _rows_equal(ctx, builds[0][1], x) and not fills, "first-batch-builds-the-reference")
                ref, crit = x, drv.crit_calls[-1][2]
                ctx.prove(drv.crit_calls[-1][1] == len(x), "critical-value-sample-size-is-reference-size")
                ctx.prove(d.drift_state is None, "reference-batch-is-silent")
                state = None
            else:
                ctx.prove(not builds and len(fills) == 1 and _rows_equal(ctx, fills[0][1], x) and fills[0][2] == "test"
                          and fills[0][3] is True, "test-batch-replaces-previous-test-counts")
                want = drv.memo.get("kl", (ref, [(x, "test")], "build", "test"), lambda: cur().real("kl_unexpected"))
                ctx.prove(iff(state_is(d.drift_state, "drift"), want > crit), "drift-iff-divergence-exceeds-critical-value")
                state = "drift" if state_is(d.drift_state, "drift") is True else None
                if state == "drift":
                    ctx.witness("drift")
            prev = x


def body_critical(ctx, ref_counts, sample_size, boots, nsym=2):
    from menelaus.data_drift import kdq_tree as M
    import importlib

    P = importlib.import_module("menelaus.partitioners.KDQTreePartitioner").KDQTreePartitioner
    alpha = ctx.real("alpha")
    ctx.assume(land(alpha > 0, alpha < 1))
    rec = {"choice": [], "entropy": [], "quantile": []}
    k = len(ref_counts)

    def choice(a, size=None, p=None):
        pop = list(a)
        picks = []
        # arbitrary (solver-chosen) draws at the first position of each half, a fixed cyclic pattern elsewhere
        symbolic_at = {0, size // 2} if nsym >= 2 else {size // 2}
        for j in range(size):
            if j in symbolic_at:
                v = cur().int("draw")
                cur().assume(between(0, v, len(pop) - 1))
                picks.append(pop[int(v)])
            else:
                picks.append(pop[(j + len(rec["choice"])) % len(pop)])
        rec["choice"].append((pop, size, list(p), picks))
        return np.array(picks, dtype=int)

    def entropy(a, b):
        r = cur().real("kl")
        rec["entropy"].append((list(np.asarray(a, dtype=float)), list(np.asarray(b, dtype=float)), r))
        return r

    def quantile(v, level, method=None):
        r = cur().real("critical_value")
        rec["quantile"].append((list(v), level, method, r))
        return r

    shim = stubs.NpShim(quantile=quantile, random=type("R", (), {"choice": staticmethod(choice)}))
    fake_scipy = type("S", (), {"stats": type("St", (), {"entropy": staticmethod(entropy)})})
    with rebind(M, np=shim, scipy=fake_scipy):
        det = M.KdqTreeBatch(alpha=alpha, bootstrap_samples=boots)
        got = det._get_critical_kld(list(ref_counts), sample_size)
    want_p = [(c + 0.5) / (sum(ref_counts) + k / 2) for c in ref_counts]
    ctx.prove(len(rec["choice"]) == boots, "one-draw-per-bootstrap-sample")
    for pop, size, p, picks in rec["choice"]:
        ctx.prove(pop == list(range(k)) and size == 2 * sample_size, "draws-two-samples-of-the-reference-size-over-the-leaves")
        ctx.prove(np.allclose(p, want_p), "draws-from-the-corrected-reference-leaf-distribution")
    ctx.prove(len(rec["entropy"]) == boots, "one-divergence-per-bootstrap-pair")
    for (pop, size, p, picks), (a, b, r) in zip(rec["choice"], rec["entropy"]):
        h1 = [sum(1 for v in picks[:sample_size] if v == leaf) for leaf in range(k)]
        h2 = [sum(1 for v in picks[sample_size:] if v == leaf) for leaf in range(k)]
        w1 = [(c + 0.5) / (sample_size + k / 2) for c in h1]
        w2 = [(c + 0.5) / (sample_size + k / 2) for c in h2]
        ctx.prove(np.allclose(a, w1) and np.allclose(b, w2), "halves-converted-to-corrected-distributions-over-all-leaves")
    ctx.prove(len(rec["quantile"]) == 1, "one-quantile")
    if rec["quantile"]:
        v, level, method, r = rec["quantile"][0]
        ctx.prove(len(v) == boots and all(x is e[2] for x, e in zip(v, rec["entropy"])), "quantile-over-the-bootstrap-divergences")
        ctx.prove(ctx.eq(level, 1 - alpha), "quantile-level-is-one-minus-alpha")
        ctx.prove(got is r, "critical-value-is-that-quantile")
    ctx.witness("checked")


def jobs(tier):
    q = tier == "quick"
    out = []
    for w in (1, 2, 3):
        out.append(Job(f"stream-w{w}", "checks.c09:body_stream", {"w": w, "N": 3 * w + (4 if q else 6)},
                       expect=("reference-built", "drift", "dip"), opts={"validate": 1}))
    for sr in (False, True):
        out.append(Job(f"batch-setref{int(sr)}", "checks.c09:body_batch", {"N": 5 if q else 6, "set_ref": sr},
                       expect=("drift", "after-drift"), opts={"validate": 1}))
    for sr in (False, True):
        out.append(Job(f"batch-uneven-setref{int(sr)}", "checks.c09:body_batch",
                       {"N": 5 if q else 6, "set_ref": sr, "sizes": [2, 4, 3, 5]}, expect=("drift", "after-drift"),
                       opts={"validate": 1}))
    # an explicit reset() at every position of a short history
    for k in (1, 2, 3):
        out.append(Job(f"stream-w2-reset{k}", "checks.c09:body_stream", {"w": 2, "N": k + 5, "reset_at": k},
                       expect=("manual-reset", "reference-built"), opts={"validate": 1}))
        out.append(Job(f"batch-reset{k}", "checks.c09:body_batch", {"N": k + 2, "set_ref": False, "reset_at": k},
                       expect=("manual-reset",), opts={"validate": 1}))
    for counts, ss, boots, nsym in (([2, 1], 1, 2, 2), ([1, 0, 2], 2, 2, 2), ([3, 1, 0, 2], 2, 3 if q else 4, 1), ([1, 1], 3, 2, 2)):
        out.append(Job(f"critical-{''.join(map(str, counts))}-s{ss}-b{boots}", "checks.c09:body_critical",
                       {"ref_counts": counts, "sample_size": ss, "boots": boots, "nsym": nsym}, expect=("checked",),
                       opts={"validate": 1}))
    return out
