"""C05 - DDM, EDDM and STEPD decide from the error sequence exactly as specified.

B (exact-float-per-path): labels are symbolic integers; the only forks are on
label equality and on comparisons against *symbolic* thresholds, so on each
path the statistics are the IEEE doubles the real code computed while the
thresholds stay universally quantified.  The real detector is compared with the
executable specification (specs/label_detectors.py) after every update.

S (real arithmetic, unbounded history): one step from an arbitrary state.
"""
import math

import numpy as np

from symx.core import Sym, SymBool
from symx.logic import b2i, between, iff, implies, ite, land, lnot, lor, state_is
from symx.run import Job
from specs.label_detectors import DDMSpec, EDDMSpec, STEPDSpec

from . import stubs
from .common import rebind

PROPERTY = "C05"
ENCODED = [
    "menelaus.concept_drift.ddm:DDM.update", "menelaus.concept_drift.ddm:DDM._increment_retraining_recs",
    "menelaus.concept_drift.eddm:EDDM.update", "menelaus.concept_drift.eddm:EDDM._increment_retraining_recs",
    "menelaus.concept_drift.stepd:STEPD.update", "menelaus.concept_drift.stepd:STEPD._increment_retraining_recs",
    "menelaus.concept_drift.stepd:STEPD.recent_accuracy", "menelaus.concept_drift.stepd:STEPD.past_accuracy",
    "menelaus.concept_drift.stepd:STEPD.overall_accuracy",
]
BOUNDS = {
    "quick": "B: every outcome sequence of length N<=8 (DDM/EDDM n_threshold in {1,2,3}; STEPD window in {1,2}), labels arbitrary "
             "integers, thresholds universally quantified reals; S: one step from an arbitrary state (DDM, EDDM; symbolic "
             "unbounded n_threshold), each step re-establishing the equality of all running statistics with the specification; STEPD by B only",
    "thorough": "B: N<=10, n_threshold in {1..4}, STEPD window in {1,2,3}; S as quick",
}
OUTSIDE = ("sequences longer than N (covered only by the S steps, which use exact real arithmetic instead of IEEE doubles); "
           "the running-deviation recurrence of DDM/EDDM is taken from the tree as part of the specification (the statement "
           "does not define it)")
ASSUMPTIONS = [
    "B: statistics are the real doubles computed by the real code on each path; scipy.stats.norm.cdf is the real scipy (STEPD)",
    "S: pre-state satisfies the representation invariant; floats are exact reals; sqrt(x) is the r>=0 with r*r=x; "
    "STEPD S-step: norm.cdf is modelled as a function (equal arguments, proved equal by the solver, give the same arbitrary value in [0,1])",
]
TRUSTED = ["z3", "CPython/numpy executing the real detector code", "scipy.stats.norm.cdf (B mode, concrete arguments)"]


def _recs_equal(ctx, impl, spec):
    a, b = list(impl), list(spec)
    ok = True
    for x, y in zip(a, b):
        if x is None or y is None:
            ok = land(ok, x is None and y is None)
        else:
            ok = land(ok, ctx.eq(x, y))
    return ok


def _feq(ctx, a, b):
    """equality of a statistic of the implementation with the specification's; infinities (initial minima) compare by value"""
    inf_a = isinstance(a, float) and math.isinf(a)
    inf_b = isinstance(b, float) and math.isinf(b)
    if inf_a or inf_b:
        return inf_a and inf_b and a == b
    return ctx.eq(a, b)


def _same_statistics(ctx, d, spec):
    """the representation relation of the inductive step: after the update the implementation's running statistics are
    again those of the specification (otherwise one-step agreement of the *outputs* would not carry over to histories)"""
    name = type(d).__name__
    if name == "DDM":
        return land(_feq(ctx, d._error_rate, spec.p), _feq(ctx, d._error_std, spec.s),
                    _feq(ctx, d._error_rate_min, spec.p_min), _feq(ctx, d._error_std_min, spec.s_min))
    if name == "EDDM":
        return land(_feq(ctx, d._n_errors, spec.n_err), _feq(ctx, d._index_error_curr, spec.last_err),
                    _feq(ctx, d._dist_mean, spec.mean), _feq(ctx, d._dist_std, spec.dev),
                    _feq(ctx, d._max_numerator, spec.max_level))
    win = list(d._window)
    return land(len(win) == len(spec.recent), *[_feq(ctx, a, b) for a, b in zip(win, spec.recent)],
                _feq(ctx, d._r, spec.older_correct), _feq(ctx, d._s, sum(spec.recent)))


def _compare(ctx, d, spec, dc, wc, prev_state):
    post = d.drift_state
    if spec.quiet:
        ctx.prove(post is prev_state or post == prev_state, "quiet-step-keeps-state")
    else:
        ctx.prove(iff(state_is(post, "drift"), dc), "drift-iff-spec")
        ctx.prove(iff(state_is(post, "warning"), land(lnot(dc), wc)), "warning-iff-spec")
    spec.commit(post)
    if state_is(post, "drift") is not True:
        # (after an alarm the statistics are dead: both sides restart on the next sample)
        ctx.prove(_same_statistics(ctx, d, spec), "running-statistics-equal-spec")
    ctx.witness(f"state-{post}")


def body_hist(ctx, det, N, par):
    from menelaus.concept_drift import DDM, EDDM, STEPD
    import scipy.stats

    if det == "DDM":
        ws, ds = ctx.real("warning_scale"), ctx.real("drift_scale")
        d = DDM(n_threshold=par, warning_scale=ws, drift_scale=ds)
        spec = DDMSpec(par, ws, ds)
    elif det == "EDDM":
        wt, dt = ctx.real("warning_thresh"), ctx.real("drift_thresh")
        d = EDDM(n_threshold=par, warning_thresh=wt, drift_thresh=dt)
        spec = EDDMSpec(par, wt, dt)
    else:
        aw, ad = ctx.real("alpha_warning"), ctx.real("alpha_drift")
        d = STEPD(window_size=par, alpha_warning=aw, alpha_drift=ad)
        spec = STEPDSpec(par, aw, ad, lambda x: scipy.stats.norm.cdf(x, 0, 1))
    for i in range(N):
        yt, yp = ctx.int(f"yt{i}"), ctx.int(f"yp{i}")
        err = 1 if (yt != yp) else 0  # fork: the outcome is concrete on each path
        prev = d.drift_state
        if prev == "drift":
            prev = None
            ctx.witness("after-drift")
        dc, wc = spec.step(err)
        d.update(yt, yp)
        _compare(ctx, d, spec, dc, wc, prev)
        recs = spec.recs if det == "STEPD" else spec.recs.recs
        if det == "STEPD":
            ctx.prove(_recs_equal(ctx, d.retraining_recs, recs), "recs-equal-spec")
            r, p, o = spec.accuracies()
            ctx.prove(land(ctx.eq(d.recent_accuracy(), r), ctx.eq(d.past_accuracy(), p),
                           ctx.eq(d.overall_accuracy(), o)), "stepd-accuracies")
        else:
            ctx.prove(_recs_equal(ctx, d.retraining_recs, recs), "recs-equal-spec")
        ctx.prove(land(d.total_samples == spec.total, d.samples_since_reset == spec.n), "counters-equal-spec")


# --------------------------------------------------------------------------
# S: one step from an arbitrary state


def _load_common(ctx, d, spec, pre):
    total, since = ctx.int("total"), ctx.int("since")
    ctx.assume(land(since >= 0, since <= total))
    d._total_samples, d._samples_since_reset, d._drift_state = total, since, pre
    spec.total, spec.n, spec.state = total, since, pre
    return total, since


def make_ddm_state(ctx, pre, r0):
    """a DDM in an arbitrary invariant state, and its specification in the same state"""
    from menelaus.concept_drift import DDM

    nth, ws, ds = ctx.int("n_threshold"), ctx.real("warning_scale"), ctx.real("drift_scale")
    d = DDM(n_threshold=nth, warning_scale=ws, drift_scale=ds)
    spec = DDMSpec(nth, ws, ds)
    total, since = _load_common(ctx, d, spec, pre)
    p, s, pm, sm = ctx.real("p"), ctx.real("s"), ctx.real("p_min"), ctx.real("s_min")
    ctx.assume(land(p >= 0, p <= 1, s >= 0, sm >= 0))
    d._error_rate, d._error_std, d._error_rate_min, d._error_std_min = p, s, pm, sm
    spec.p, spec.s, spec.p_min, spec.s_min = p, s, pm, sm
    first = ctx.int("first_warning") if r0 else None
    if first is not None:
        ctx.assume(between(total - since, first, total - 1))
    if pre is not None:
        ctx.assume(since >= nth)
    drift_idx = total - 1 if pre == "drift" else None
    if pre == "drift" and first is None:
        first = drift_idx
    d._retraining_recs = [first, drift_idx]
    spec.recs.first, spec.recs.recs = first, [first, drift_idx]
    return d, spec


def body_ddm_step(ctx, pre, r0):
    d, spec = make_ddm_state(ctx, pre, r0)
    _one_step(ctx, d, spec, pre, lambda: spec.recs.recs)


def make_eddm_state(ctx, pre, r0):
    from menelaus.concept_drift import EDDM

    nth, wt, dt = ctx.int("n_threshold"), ctx.real("warning_thresh"), ctx.real("drift_thresh")
    d = EDDM(n_threshold=nth, warning_thresh=wt, drift_thresh=dt)
    spec = EDDMSpec(nth, wt, dt)
    total, since = _load_common(ctx, d, spec, pre)
    nerr, last = ctx.int("n_errors"), ctx.int("last_error_pos")
    ctx.assume(land(nerr >= 0, nerr <= since, last >= 0, last <= since))
    m, dev, mx = ctx.real("mean"), ctx.real("dev"), ctx.real("max_level")
    ctx.assume(land(m >= 0, dev >= 0, mx >= 0))
    d._n_errors, d._index_error_curr, d._dist_mean, d._dist_std, d._max_numerator = nerr, last, m, dev, mx
    spec.n_err, spec.last_err, spec.mean, spec.dev, spec.max_level = nerr, last, m, dev, mx
    first = ctx.int("first_warning") if r0 else None
    if first is not None:
        ctx.assume(between(total - since, first, total - 1))
    if pre is not None:
        ctx.assume(nerr >= nth)
    drift_idx = total - 1 if pre == "drift" else None
    if pre == "drift" and first is None:
        first = drift_idx
    d._retraining_recs = [first, drift_idx]
    spec.recs.first, spec.recs.recs = first, [first, drift_idx]
    return d, spec


def body_eddm_step(ctx, pre, r0):
    d, spec = make_eddm_state(ctx, pre, r0)
    _one_step(ctx, d, spec, pre, lambda: spec.recs.recs)


def _one_step(ctx, d, spec, pre, spec_recs):
    yt, yp = ctx.int("y_true"), ctx.int("y_pred")
    err = b2i(yt != yp)
    prev = None if pre == "drift" else pre
    dc, wc = spec.step(err)
    d.update(yt, yp)
    _compare(ctx, d, spec, dc, wc, prev)
    ctx.prove(_recs_equal(ctx, d.retraining_recs, spec_recs()), "recs-equal-spec")
    ctx.prove(land(ctx.eq(d.total_samples, spec.total), ctx.eq(d.samples_since_reset, spec.n)), "counters-equal-spec")


def make_stepd_state(ctx, pre, L):
    from menelaus.concept_drift import stepd as M

    w, aw, ad = ctx.int("window_size"), ctx.real("alpha_warning"), ctx.real("alpha_drift")
    fake = stubs.fake_scipy_norm(uf=False, congruence=True)
    d = M.STEPD(window_size=w, alpha_warning=aw, alpha_drift=ad)
    spec = STEPDSpec(w, aw, ad, lambda x: fake.stats.norm.cdf(x, 0, 1))
    total, since = _load_common(ctx, d, spec, pre)
    ctx.assume(w >= 1)
    ctx.assume(ite(since <= w, since == L, w == L))
    win = [ctx.int(f"w{i}") for i in range(L)]
    for x in win:
        ctx.assume(between(0, x, 1))
    r = ctx.int("older_correct")
    ctx.assume(between(0, r, since - L))
    s = 0
    for x in win:
        s = s + x
    d._s, d._r, d._window = s, r, list(win)
    spec.recent, spec.older_correct = list(win), r
    if pre is None:
        recs = [None, None]
    else:
        start = ctx.int("run_start")
        ctx.assume(between(total - since, start, total - 1))
        ctx.assume(since >= 2 * w)
        recs = [start, total - 1]
        spec.run_start = start
    d._retraining_recs = np.array(recs, dtype=object)
    spec.recs = list(recs)
    return d, spec, M, fake


def body_stepd_step(ctx, pre, L):
    d, spec, M, fake = make_stepd_state(ctx, pre, L)
    with rebind(M, scipy=fake):
        _one_step(ctx, d, spec, pre, lambda: spec.recs)


def jobs(tier):
    q = tier == "quick"
    out = []
    N = 8 if q else 10
    for nth in (1, 2, 3) if q else (1, 2, 3, 4):
        out.append(Job(f"ddm-hist-n{nth}", "checks.c05:body_hist", {"det": "DDM", "N": N, "par": nth},
                       # with n_threshold=1 the very first test has zero deviation and always alarms
                       expect=("state-drift", "after-drift") + (("state-warning", "state-None") if nth > 1 else ()),
                       opts={"validate": 1}))
        out.append(Job(f"eddm-hist-n{nth}", "checks.c05:body_hist", {"det": "EDDM", "N": N, "par": nth},
                       expect=("state-drift", "state-warning", "state-None", "after-drift"), opts={"validate": 1}))
    for w in (1, 2) if q else (1, 2, 3):
        out.append(Job(f"stepd-hist-w{w}", "checks.c05:body_hist", {"det": "STEPD", "N": N, "par": w},
                       expect=("state-drift", "state-warning", "state-None", "after-drift"), opts={"validate": 1}))
    for pre in (None, "warning", "drift"):
        for r0 in (0, 1):
            if pre == "warning" and not r0:
                continue
            out.append(Job(f"ddm-step-{pre}-first{r0}", "checks.c05:body_ddm_step", {"pre": pre, "r0": r0}))
            out.append(Job(f"eddm-step-{pre}-first{r0}", "checks.c05:body_eddm_step", {"pre": pre, "r0": r0}))
    # STEPD has no S-step here: equality of the two statistic expressions (nested quotients under a square root with
    # symbolic window size) is "unknown" for z3 within 60 s for short windows; STEPD is decided by the B runs above
    # (every outcome sequence up to N for window sizes 1-3) and its lifecycle / clean-slate / agreement / monotonicity
    # steps are in C01, C02, C16, C17.
    return out
