"""C06 - Linear Four Rates tracks the four rates and tests them against simulated bounds.

B: the real update() with _sim_bounds replaced (on the instance) by a recorded
uninterpreted function of (rate estimate, denominator) returning four symbolic
bounds; labels are symbolic 0/1 values, the decay factor symbolic.  After every
sample the real detector is compared with a functional reference of the
statement: confusion matrix with pseudo-counts, the four rates, the
exponentially weighted statistics updated only when the rate changed, the test
schedule, the state from tracked rates only, retraining_recs, and *which*
bounds are requested (cache keyed by rounded rate and denominator).
A/K: the real _sim_bounds with symbolic decay factor and levels, recorded
Bernoulli draws and percentile calls.
"""
from itertools import combinations

import numpy as np

from symx.core import Sym, SymBool, cur
from symx.logic import b2i, between, iff, implies, ite, land, lnot, lor, state_is
from symx.run import Job

from . import stubs
from .common import rebind
from .drivers import DRIVERS

PROPERTY = "C06"
ENCODED = [
    "menelaus.concept_drift.lfr:LinearFourRates.update", "menelaus.concept_drift.lfr:LinearFourRates.reset",
    "menelaus.concept_drift.lfr:LinearFourRates._get_four_rates", "menelaus.concept_drift.lfr:LinearFourRates._get_four_denominators",
    "menelaus.concept_drift.lfr:LinearFourRates._update_bounds_dict", "menelaus.concept_drift.lfr:LinearFourRates._sim_bounds",
    "menelaus.concept_drift.lfr:LinearFourRates._increment_retraining_recs",
]
BOUNDS = {
    "quick": "update: N<=3 samples (every 0/1 label pair), burn_in in {0,1}, subsample in {1,2}, round_val in {1,4}, tracked subsets "
             "{}, each single rate, two pairs and all four; symbolic decay factor in (0,1); _sim_bounds: denominators 1..3, num_mc=2, "
             "every Bernoulli outcome, symbolic decay factor and levels",
    "thorough": "N<=4, all 16 tracked subsets for burn_in=0",
}
OUTSIDE = "statistical validity of the Monte-Carlo quantiles (set aside by the property itself); parallelize=True (joblib threads); longer streams"
ASSUMPTIONS = [
    "_sim_bounds is an uninterpreted function of (rate estimate, denominator) in the update runs; np.random.binomial returns an "
    "arbitrary 0/1 vector of the requested size and np.percentile an arbitrary value (recorded) in the _sim_bounds runs",
]
TRUSTED = ["z3", "pandas DataFrame.apply on small object frames"]

RATES = ("tpr", "tnr", "ppv", "npv")


def _rates(c):
    tn, fn, fp, tp = c[0][0], c[0][1], c[1][0], c[1][1]
    return ({"tpr": tp / (tp + fn), "tnr": tn / (tn + fp), "ppv": tp / (fp + tp), "npv": tn / (tn + fn)},
            {"tpr": tp + fn, "tnr": tn + fp, "ppv": fp + tp, "npv": tn + fn})


def body_update(ctx, N, burn, sub, round_val, tracked, prefix=()):
    cfg = {"burn_in": burn, "subsample": sub, "rates_tracked": list(tracked), "round_val": round_val}
    with DRIVERS["LinearFourRates"](ctx, **cfg) as drv:
        d = drv.det
        eta = drv.params["time_decay_factor"]
        conf = [[1, 1], [1, 1]]  # [pred][true], one pseudo-count per cell
        R = {r: 0.5 for r in RATES}
        seen = {}  # bounds cache of the reference: (rounded rate, rounded denominator) -> bounds
        since, total = 0, 0
        first_warning = None
        state = None
        for i in range(N):
            if state == "drift":
                conf = [[1, 1], [1, 1]]
                R = {r: 0.5 for r in RATES}
                since, first_warning, state = 0, None, None
                ctx.witness("after-drift")
            if i < len(prefix):
                yt, yp = prefix[i]  # a fixed warm-up (reaches deeper cache states with few paths)
            else:
                yt, yp = drv.fresh_input(i)
            t, p = int(yt), int(yp)  # solver-driven case split on the label values
            ncalls = len(drv.sim_calls)
            d.update(yt, yp)
            since += 1
            total += 1
            old, _ = _rates(conf)
            conf[p][t] += 1
            new, den = _rates(conf)
            ctx.prove(bool((d._confusion == np.array(conf)).all()), "confusion-matrix-with-pseudo-counts")
            test_now = since > burn and since % sub == 0
            alarm, warn = False, False
            expected_calls = []
            for r in RATES:
                if r in tracked:
                    if new[r] != old[r]:
                        R[r] = eta * R[r] + (1 - eta) * (1 if t == p else 0)
                    ctx.prove(ctx.eq(d._r_stat[since][r], R[r]), "statistic-updated-only-when-rate-changed")
                    ctx.prove(d._p_table[since][r] == new[r], "rate-from-confusion-matrix")
                    if test_now:
                        key = (round(new[r], round_val), round(den[r], round_val))
                        if key not in seen:
                            expected_calls.append((new[r], den[r]))
                            k = len(expected_calls) - 1
                            got = drv.sim_calls[ncalls + k] if ncalls + k < len(drv.sim_calls) else None
                            ctx.prove(got is not None and got[0] == new[r] and got[1] == den[r],
                                      "bounds-simulated-for-exact-rate-and-denominator-at-first-use")
                            if got is None:
                                return
                            seen[key] = got[2]
                        b = seen[key]
                        alarm = lor(alarm, R[r] < b["lb_detect"], R[r] > b["ub_detect"])
                        warn = lor(warn, R[r] < b["lb_warn"], R[r] > b["ub_warn"])
            ctx.prove(len(drv.sim_calls) - ncalls == len(expected_calls), "no-other-bounds-requested (cache, untracked rates, schedule)")
            post = d.drift_state
            ctx.prove(iff(state_is(post, "drift"), alarm), "drift-iff-a-tracked-statistic-leaves-detect-bounds")
            ctx.prove(iff(state_is(post, "warning"), land(lnot(alarm), warn)), "warning-iff-a-tracked-statistic-leaves-warning-bounds")
            ctx.prove(d.all_drift_states[-1] is post and len(d.all_drift_states) == total, "all_drift_states-log")
            state = "drift" if state_is(post, "drift") is True else ("warning" if state_is(post, "warning") is True else None)
            idx = total - 1
            if state == "warning" and first_warning is None:
                first_warning = idx
            want = [first_warning if first_warning is not None else idx, idx] if state == "drift" else [first_warning, None]
            ctx.prove(list(d.retraining_recs) == want, "retraining_recs-first-warning-and-drift")
            ctx.witness(f"state-{state}")


def body_sim_bounds(ctx, denom):
    from menelaus.concept_drift import lfr as M

    eta, wl, dl = ctx.real("eta"), ctx.real("warning_level"), ctx.real("detect_level")
    ctx.assume(land(eta > 0, eta < 1, wl > 0, wl < 1, dl > 0, dl < 1))
    est = 0.25
    num_mc = 2
    d = M.LinearFourRates(time_decay_factor=eta, warning_level=wl, detect_level=dl, num_mc=num_mc)
    draws, pct = [], []

    def binomial(n=1, p=None, size=None):
        bits = []
        for j in range(size):
            b = cur().int("bernoulli")
            cur().assume(between(0, b, 1))
            bits.append(int(b))
        draws.append((n, p, size, bits))
        return np.array(bits)

    def percentile(v, q=None):
        r = cur().real("percentile")
        pct.append((list(v), q, r))
        return r

    shim = stubs.NpShim(percentile=percentile, random=type("R", (), {"binomial": staticmethod(binomial)}))
    with rebind(M, np=shim):
        out = d._sim_bounds(est, denom)
    ctx.prove(len(draws) == num_mc and all(x[0] == 1 and x[1] == est and x[2] == denom for x in draws),
              "one-bernoulli-vector-of-length-denominator-per-simulation")
    ctx.prove(len(pct) == 4, "four-percentiles")
    if len(pct) != 4 or len(draws) != num_mc:
        return
    vec = pct[0][0]
    same = lambda a, b: a is b or (not isinstance(a, Sym) and not isinstance(b, Sym) and a == b)  # noqa: E731
    ctx.prove(all(len(p[0]) == num_mc and all(same(a, b) for a, b in zip(p[0], vec)) for p in pct), "percentiles-of-the-simulated-statistics")
    for j in range(num_mc):
        bits = draws[j][3]
        want = 0
        for i in range(1, denom + 1):
            term = 1
            for _ in range(denom - i):
                term = term * eta
            want = want + term * bits[i - 1]
        ctx.prove(ctx.eq(vec[j], (1 - eta) * want), "simulated-statistic-is-the-exponentially-weighted-bernoulli-sum")
    ctx.prove(land(ctx.eq(pct[0][1], wl * 100), ctx.eq(pct[1][1], 100 - wl * 100), ctx.eq(pct[2][1], dl * 100),
                   ctx.eq(pct[3][1], 100 - dl * 100)), "percentile-levels-follow-warning-and-detect-level")
    ctx.prove(out["lb_warn"] is pct[0][2] and out["ub_warn"] is pct[1][2] and out["lb_detect"] is pct[2][2]
              and out["ub_detect"] is pct[3][2], "bounds-are-those-percentiles")
    ctx.witness("checked")


def jobs(tier):
    q = tier == "quick"
    out = []
    subsets = [(), ("tpr",), ("tnr",), ("ppv",), ("npv",), ("tpr", "npv"), ("tnr", "ppv"), RATES]
    if not q:
        subsets = [c for k in range(5) for c in combinations(RATES, k)]
    for tracked in subsets:
        n = 3 if (q or len(tracked) > 2) else 4
        if len(tracked) == 4:
            n = 2 if q else 3
        exp = ("state-None",) + (("state-drift", "state-warning", "after-drift") if tracked else ())
        out.append(Job(f"update-b0-s1-r4-{'.'.join(tracked) or 'none'}", "checks.c06:body_update",
                       {"N": n, "burn": 0, "sub": 1, "round_val": 4, "tracked": list(tracked)}, expect=exp[:3] if n < 3 else exp,
                       opts={"validate": 1}))
    for burn, sub, rv in ((1, 1, 4), (0, 2, 4), (1, 2, 1), (0, 1, 1)):
        out.append(Job(f"update-b{burn}-s{sub}-r{rv}-ppv", "checks.c06:body_update",
                       {"N": 3 if q else 4, "burn": burn, "sub": sub, "round_val": rv, "tracked": ["ppv"]},
                       opts={"validate": 1}))
    # cache: a rounded rate that is already cached recurs with a new denominator (2/3 -> 0.7 at denominator 3, 4/6 -> 0.7
    # at denominator 6): the bounds must be simulated for the *exact* rate
    out.append(Job("update-cache-rounded-rate-new-denominator", "checks.c06:body_update",
                   {"N": 5, "burn": 0, "sub": 1, "round_val": 1, "tracked": ["ppv"], "prefix": [[1, 1], [1, 1], [1, 1]]},
                   expect=("state-None",), opts={"validate": 1}))
    # labels in {0,1} also arrive as Python / numpy booleans (y_pred = score > 0.5): real bool objects index arrays as masks,
    # which no proxy imitates, so these runs take concrete labels selected by symbolic bits and compare every field with
    # the integer run that the jobs above tie to the reference (harness body shared with C16; seed C06-7)
    for kind in ("bool", "npbool", "mixed"):
        out.append(Job(f"update-concrete-labels-{kind}", "checks.c16:body_lfr_concrete", {"N": 3, "kind": kind},
                       expect=("compared",), opts={"validate": 1}))
    for denom in (1, 2, 3):
        out.append(Job(f"sim-bounds-denom{denom}", "checks.c06:body_sim_bounds", {"denom": denom}, expect=("checked",),
                       opts={"validate": 1}))
    return out
