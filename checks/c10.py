"""C10 - NN-DVI measures neighbourhood density change between exactly the given batches.

B (membership): the real NNSpacePartitioner.build on two samples of symbolic
points (duplicates within and across samples are solver-chosen), with
np.unique(axis=0, return_inverse=True) replaced by a sort-and-dedupe model on
symbolic rows and sklearn's NearestNeighbors by a shape-correct stub.
K (distance): the real compute_nnps_distance on a symbolic non-negative matrix
with diagonal >= 1 and 0/1 membership vectors covering every index: symmetric,
in [0, 1], 0 for equal samples.
B+A (NNDVI): the real update / _compute_drift_threshold with recorded
permutation / norm.fit / norm.ppf.
"""
import importlib
from itertools import product

import numpy as np

from symx.core import Sym, SymBool, cur
from symx.logic import b2i, between, iff, implies, ite, land, lnot, lor, state_is
from symx.run import Job

from . import stubs
from .common import obj_array, rebind
from .drivers import DRIVERS

PROPERTY = "C10"
ENCODED = [
    "menelaus.partitioners.NNSpacePartitioner:NNSpacePartitioner.build",
    "menelaus.partitioners.NNSpacePartitioner:NNSpacePartitioner.compute_nnps_distance",
    "menelaus.data_drift.nndvi:NNDVI.update", "menelaus.data_drift.nndvi:NNDVI.set_reference",
    "menelaus.data_drift.nndvi:NNDVI._compute_drift_threshold",
]
BOUNDS = {
    "quick": "membership: sample sizes (n1,n2) in {1..3}^2 with n1+n2<=5, 1-D and 2-D symbolic points; distance: m<=4 points, every "
             "0/1 membership pattern covering all indices, symbolic matrix; NNDVI: N<=4 batches, sampling_times<=3, plus N<=3 with an undefined (NaN) quantile at one step",
    "thorough": "membership n1+n2<=6; distance m<=5",
}
OUTSIDE = ("that the adjacency matrix is the k-nearest-neighbour relation: sklearn's compiled neighbour search is not encodable "
           "(trusted); statistical meaning of the permutation threshold")
ASSUMPTIONS = [
    "np.unique(axis=0, return_inverse=True) modelled as lexicographic sort + de-duplication of the pooled rows (validated "
    "against numpy on concrete arrays each run); NearestNeighbors stub: each point adjacent to itself and k-1 others",
    "distance lemma: matrix entries >= 0, diagonal >= 1 (every point is its own neighbour), membership vectors are 0/1 and "
    "every index belongs to at least one sample (all true of what build() produces)",
    "NNDVI runs: partitioner / distance are uninterpreted functions of their arguments; permutation returns an arbitrary "
    "fixed rearrangement; norm.fit / norm.ppf recorded",
]
TRUSTED = ["z3", "sklearn.neighbors.NearestNeighbors (not exercised)", "numpy lcm/matmul on concrete integer weights"]


def _lex_lt(a, b):
    """strict lexicographic order on rows of proxies (forks)"""
    for x, y in zip(a, b):
        if bool(x < y):
            return True
        if bool(x > y):
            return False
    return False


def _row_eq(a, b):
    return all(bool(x == y) for x, y in zip(a, b))


def model_unique(data, axis=None, return_inverse=False, return_index=False):
    if axis != 0:
        raise AssertionError(f"rows are de-duplicated with axis=0 (got axis={axis!r})")
    rows = [list(r) for r in np.asarray(data, dtype=object)]
    order = []  # indices into rows, sorted, first occurrence of each distinct row
    for i, r in enumerate(rows):
        pos = 0
        dup = False
        for k, j in enumerate(order):
            if _row_eq(r, rows[j]):
                dup = True
                break
            if _lex_lt(rows[j], r):
                pos = k + 1
        if not dup:
            order.insert(pos, i)
    D = obj_array([rows[j] for j in order]) if order else np.empty((0, len(rows[0]) if rows else 0), dtype=object)
    inv = []
    for r in rows:
        for k, j in enumerate(order):
            if _row_eq(r, rows[j]):
                inv.append(k)
                break
    out = (D,)
    if return_index:  # numpy's order of the optional results: index, inverse
        out += (np.array(order, dtype=int),)
    if return_inverse:
        out += (np.array(inv, dtype=int),)
    return out if len(out) > 1 else D


def validate_unique_model():
    rs = np.random.RandomState(5)
    for _ in range(30):
        a = rs.randint(0, 3, size=(rs.randint(1, 6), rs.randint(1, 3))).astype(float)
        D, inv = np.unique(a, axis=0, return_inverse=True)
        from symx.concrete import ConcreteCtx
        from symx import core

        core.set_cur(ConcreteCtx({}))
        try:
            D2, inv2 = model_unique(a, axis=0, return_inverse=True)
        finally:
            core.set_cur(None)
        assert np.array_equal(D, np.array(D2, dtype=float)) and np.array_equal(np.ravel(inv), inv2), (a, D, D2, inv, inv2)
    return True


class FakeNN:
    calls = []  # (n_neighbors, fitted data, queried data) of every instance, for the argument obligations

    def __init__(self, n_neighbors=5):
        self.k = n_neighbors
        self.rec = {"n_neighbors": n_neighbors}
        FakeNN.calls.append(self.rec)

    def fit(self, D):
        self.n = len(D)
        self.rec["fit"] = D
        return self

    def kneighbors_graph(self, D):
        self.rec["query"] = D
        n, k = self.n, min(self.k, self.n)
        A = np.zeros((n, n))
        for i in range(n):
            for t in range(k):
                A[i, (i + t) % n] = 1.0
        return type("Sparse", (), {"toarray": lambda self_: A})()


def body_membership(ctx, n1, n2, d, k, rebuild=False):
    M = importlib.import_module("menelaus.partitioners.NNSpacePartitioner")
    s1 = obj_array([[ctx.real(f"a{i}_{j}") for j in range(d)] for i in range(n1)])
    s2 = obj_array([[ctx.real(f"b{i}_{j}") for j in range(d)] for i in range(n2)])
    shim = stubs.NpShim(unique=model_unique)
    with rebind(M, np=shim, NearestNeighbors=FakeNN):
        p = M.NNSpacePartitioner(k)
        if rebuild:
            # one partitioner object, two builds: nothing of the earlier pair (sizes exchanged, other rows) may survive;
            # the solver also chooses duplicates so that both unions have the same number of points (seed C10-8)
            e1 = obj_array([[ctx.real(f"e{i}_{j}") for j in range(d)] for i in range(n2)])
            e2 = obj_array([[ctx.real(f"f{i}_{j}") for j in range(d)] for i in range(n1)])
            p.build(e1, e2)
            m0 = len(p.D)
            ctx.witness("rebuilt")
        del FakeNN.calls[:]
        p.build(s1, s2)
    D = p.D
    m = len(D)
    if rebuild and m == m0:
        ctx.witness("same-union-size")
    # the neighbour search is asked for exactly the k nearest neighbours (each point included) of the union
    ctx.prove(len(FakeNN.calls) == 1 and FakeNN.calls[0]["n_neighbors"] == k and FakeNN.calls[0].get("fit") is D
              and FakeNN.calls[0].get("query") is D, "neighbour-search-gets-k-and-the-deduplicated-union")
    # D is the de-duplicated union: every input row occurs, rows are pairwise distinct
    for r in list(s1) + list(s2):
        ctx.prove(any(_row_eq(r, D[i]) for i in range(m)), "union-contains-every-point")
    for i in range(m):
        for j in range(i + 1, m):
            ctx.prove(not _row_eq(D[i], D[j]), "union-is-deduplicated")
        in1 = any(_row_eq(D[i], r) for r in s1)
        in2 = any(_row_eq(D[i], r) for r in s2)
        ctx.prove(in1 or in2, "union-has-no-foreign-point")
        ctx.prove((p.v1[i] == 1.0) == in1 and p.v1[i] in (0.0, 1.0), "v1-marks-exactly-the-first-sample")
        ctx.prove((p.v2[i] == 1.0) == in2 and p.v2[i] in (0.0, 1.0), "v2-marks-exactly-the-second-sample")
    ctx.prove(p.adjacency_matrix.shape == (m, m) and p.nnps_matrix.shape == (m, m), "matrices-are-over-the-union")
    ctx.witness("with-duplicates" if m < n1 + n2 else "all-distinct")
    if n1 != n2:
        ctx.witness("unequal-sizes")


def body_membership_dtypes(ctx, first_int):
    """samples of different numeric dtypes (an integer-typed reference with a float test batch, and the reverse): real
    typed arrays cannot hold proxies, so the float rows are picked from a small alphabet by solver-driven choices (one per
    cell) - integer-valued and fractional values, duplicates of the other sample included (seed C10-9 cast the second
    sample to the dtype of the first)"""
    M = importlib.import_module("menelaus.partitioners.NNSpacePartitioner")
    ints = np.array([[0, 1], [1, 1], [2, 0]], dtype=np.int64)
    alphabet = [0.0, 0.5, 1.0, 1.5]
    rows = []
    for i in range(2):
        row = []
        for j in range(2):
            k = ctx.int(f"pick{i}_{j}")
            ctx.assume(between(0, k, len(alphabet) - 1))
            row.append(alphabet[int(k)])
        rows.append(row)
    floats = np.array(rows, dtype=np.float64)
    s1, s2 = (ints, floats) if first_int else (floats, ints)
    with rebind(M, NearestNeighbors=FakeNN):
        p = M.NNSpacePartitioner(2)
        p.build(s1, s2)
    D = np.asarray(p.D, dtype=float)
    m = len(D)
    for r in [list(map(float, r)) for r in s1] + [list(map(float, r)) for r in s2]:
        ctx.prove(any(list(D[i]) == r for i in range(m)), "union-contains-every-point")
    for i in range(m):
        in1 = any(list(D[i]) == list(map(float, r)) for r in s1)
        in2 = any(list(D[i]) == list(map(float, r)) for r in s2)
        ctx.prove(in1 or in2, "union-has-no-foreign-point")
        ctx.prove((p.v1[i] == 1.0) == in1, "v1-marks-exactly-the-first-sample")
        ctx.prove((p.v2[i] == 1.0) == in2, "v2-marks-exactly-the-second-sample")
    ctx.prove(len({tuple(r) for r in D.tolist()}) == m, "union-is-deduplicated")
    if any(v != int(v) for v in floats.reshape(-1)):
        ctx.witness("fractional-values")
    ctx.witness("checked")


def body_distance(ctx, m, v1, v2):
    M = importlib.import_module("menelaus.partitioners.NNSpacePartitioner")
    mat = obj_array([[ctx.real(f"m{i}_{j}") for j in range(m)] for i in range(m)])
    for i in range(m):
        for j in range(m):
            ctx.assume(mat[i, j] >= (1 if i == j else 0))
    a, b = np.array(v1, dtype=float), np.array(v2, dtype=float)
    f = M.NNSpacePartitioner.compute_nnps_distance
    # two-variable lemma, per point j: for masses x, y >= 0 with x + y > 0 the term |x-y|/(x+y) lies in [0,1], is
    # symmetric, and is 0 when x = y.  Proved per column (small nonlinear queries), then used as facts.
    terms, terms_swapped = [], []
    for j in range(m):
        x = sum((mat[i, j] for i in range(m) if v1[i]), 0)
        y = sum((mat[i, j] for i in range(m) if v2[i]), 0)
        dlt, dlt2 = x - y, y - x
        t = ite(dlt >= 0, dlt, -dlt) / (x + y)
        t2 = ite(dlt2 >= 0, dlt2, -dlt2) / (y + x)
        ctx.prove(land(t >= 0, t <= 1), "term-in-unit-interval")
        ctx.prove(ctx.eq(t, t2), "term-symmetric")
        if v1 == v2:
            ctx.prove(ctx.eq(t, 0), "term-zero-for-equal-masses")
        ctx.assume_unchecked(land(t >= 0, t <= 1, ctx.eq(t, t2)))  # just proved
        terms.append(t)
        terms_swapped.append(t2)
    d12 = f(mat, a, b)
    d21 = f(mat, b, a)
    tot = sum(terms, 0)
    tot2 = sum(terms_swapped, 0)
    ctx.prove(ctx.eq(d12 * m, tot), "distance-is-mean-relative-mass-difference")
    ctx.prove(ctx.eq(d21 * m, tot2), "distance-is-mean-relative-mass-difference")
    ctx.assume_unchecked(land(ctx.eq(d12 * m, tot), ctx.eq(d21 * m, tot2)))  # just proved
    ctx.prove(ctx.eq(d12, d21), "distance-symmetric")
    ctx.prove(land(d12 >= 0, d12 <= 1), "distance-in-unit-interval")
    if v1 == v2:
        ctx.prove(ctx.eq(d12, 0), "distance-zero-for-equal-samples")
    ctx.witness("lemma")


def body_nndvi(ctx, N, sampling_times, nan_at=None):
    from menelaus.data_drift import nndvi as M

    with DRIVERS["NNDVI"](ctx, rows=2, dim=1, sampling_times=sampling_times) as drv:
        d = drv.det
        del d._compute_drift_threshold  # use the real threshold computation
        rec = {"perm": [], "fit": [], "ppf": []}
        step = [0]

        class FakeNorm:
            @staticmethod
            def fit(values):
                mu, sd = cur().real("mu"), cur().real("std")
                cur().assume_unchecked(sd >= 0)
                rec["fit"].append((list(values), mu, sd))
                return mu, sd

            @staticmethod
            def ppf(level, mu, sd):
                # scipy returns NaN for a degenerate fit (deviation 0: e.g. the test batch repeats reference rows); nothing
                # exceeds an undefined threshold
                r = float("nan") if nan_at == step[0] else cur().real("theta")
                rec["ppf"].append((level, mu, sd, r))
                return r

        class Vec:
            """1 - permuted membership vector, as the code computes it"""

        def rsub_hook(one, v):
            return ("one-minus", v)

        # membership vectors of the stub partitioner are opaque tuples; model `1 - v` on them
        class V(tuple):
            def __rsub__(self, other):
                return V(("one-minus", other, tuple(self)))

        def permutation(v):  # noqa: F811
            rec["perm"].append(v)
            return V(("perm", len(rec["perm"]), v))

        shim = stubs.NpShim(random=type("R", (), {"permutation": staticmethod(permutation)}), array=np.array)
        alpha = drv.params["alpha"]
        with rebind(M, np=shim, norm=FakeNorm):
            R = drv.fresh_batch("ref")
            d.set_reference(R)
            ref = R
            for i in range(N):
                nlog = len(drv.log)
                for k in rec:
                    del rec[k][:]
                step[0] = i
                x = drv.step(i)
                new = drv.log[nlog:]
                b = [e for e in new if e[0] == "build"]
                same = lambda u, v: np.asarray(u).shape == np.asarray(v).shape and all(  # noqa: E731
                    p is q_ for p, q_ in zip(np.asarray(u, dtype=object).reshape(-1), np.asarray(v, dtype=object).reshape(-1)))
                ctx.prove(len(b) == 1 and same(b[0][1], ref) and same(b[0][2], x),
                          "partition-built-from-current-reference-and-the-test-batch")
                dists = [e for e in new if e[0] == "dist"]
                ctx.prove(len(dists) == 1 + sampling_times, "one-actual-distance-plus-one-per-shuffle")
                d_act = dists[0][4]
                ctx.prove(dists[0][2][0] == "v1" and dists[0][3][0] == "v2", "actual-distance-between-reference-and-test-membership")
                ctx.prove(len(rec["perm"]) == sampling_times and all(p[0] == "v1" for p in rec["perm"]), "shuffles-permute-the-reference-membership")
                for s_i, e in enumerate(dists[1:]):
                    ok = (e[2][0] == "perm" and e[2][1] == s_i + 1 and e[3][0] == "one-minus" and e[3][1] == 1 and e[3][2] == tuple(e[2]))
                    ctx.prove(ok, "shuffled-distance-between-permutation-and-its-complement")
                ctx.prove(len(rec["fit"]) == 1 and len(rec["fit"][0][0]) == sampling_times
                          and all(a is e[4] for a, e in zip(rec["fit"][0][0], dists[1:])), "normal-fitted-to-the-shuffled-distances")
                ctx.prove(len(rec["ppf"]) == 1 and rec["ppf"][0][1] is rec["fit"][0][1] and rec["ppf"][0][2] is rec["fit"][0][2],
                          "quantile-of-the-fitted-normal")
                ctx.prove(ctx.eq(rec["ppf"][0][0], 1 - alpha), "quantile-level-is-one-minus-alpha")
                theta = rec["ppf"][0][3]
                drift = d_act > theta
                ctx.prove(iff(state_is(d.drift_state, "drift"), drift), "drift-iff-distance-exceeds-threshold")
                if state_is(d.drift_state, "drift") is True:
                    ctx.prove(same(d.reference_batch, x), "test-batch-becomes-the-reference-on-drift")
                    ref = d.reference_batch
                    ctx.witness("drift")
                else:
                    ctx.prove(same(d.reference_batch, ref), "reference-kept-without-drift")
                    ctx.witness("no-drift")


def jobs(tier):
    assert validate_unique_model()
    q = tier == "quick"
    out = []
    tot = 5 if q else 6
    for n1 in (1, 2, 3):
        for n2 in (1, 2, 3):
            if n1 + n2 > tot:
                continue
            for d in (1, 2):
                if d == 2 and n1 + n2 > (4 if q else 5):
                    continue
                exp = ("all-distinct", "with-duplicates") + (("unequal-sizes",) if n1 != n2 else ())
                out.append(Job(f"membership-{n1}x{n2}-d{d}", "checks.c10:body_membership",
                               {"n1": n1, "n2": n2, "d": d, "k": 2 if (n1 + n2) % 2 else n1 + n2},
                               expect=exp, opts={"validate": 1}))
    for first_int in (True, False):
        out.append(Job(f"membership-mixed-dtypes-int-first{int(first_int)}", "checks.c10:body_membership_dtypes",
                       {"first_int": first_int}, expect=("checked", "fractional-values"), opts={"validate": 1}))
    for n1, n2, d in ((1, 2, 1), (2, 1, 1)) + (() if q else ((2, 2, 1), (1, 3, 1))):
        out.append(Job(f"membership-rebuild-{n1}x{n2}-d{d}", "checks.c10:body_membership",
                       {"n1": n1, "n2": n2, "d": d, "k": 2, "rebuild": True},
                       expect=("rebuilt", "same-union-size", "with-duplicates"), opts={"validate": 1}))
    for m in (1, 2, 3, 4) if q else (1, 2, 3, 4, 5):
        for v1 in product((0, 1), repeat=m):
            for v2 in product((0, 1), repeat=m):
                if any(a == 0 and b == 0 for a, b in zip(v1, v2)) or v1 > v2:
                    continue
                if m >= 4 and q and (sum(v1) + sum(v2)) % 2:
                    continue
                out.append(Job(f"distance-m{m}-{''.join(map(str, v1))}-{''.join(map(str, v2))}", "checks.c10:body_distance",
                               {"m": m, "v1": list(v1), "v2": list(v2)}, expect=("lemma",), opts={"validate": 1}))
    for st in (1, 3) if q else (1, 2, 3):
        out.append(Job(f"nndvi-st{st}", "checks.c10:body_nndvi", {"N": 4, "sampling_times": st}, expect=("drift", "no-drift"),
                       opts={"validate": 1}))
    for nan_at in (0, 1):
        out.append(Job(f"nndvi-st1-undefined-threshold-at{nan_at}", "checks.c10:body_nndvi",
                       {"N": 3, "sampling_times": 1, "nan_at": nan_at}, expect=("drift", "no-drift"), opts={"validate": 1}))
    return out
