"""C13 - each election returns exactly what its voting rule says.

Real code: menelaus/ensemble/election.py, executed on member stubs whose
``drift_state`` is a symbolic 3-valued state.  Integer parameters are
*unbounded* symbolic integers on their documented domain.
"""
from itertools import product

from symx.logic import land, lor, lnot, implies, iff, b2i, ite, state_is, count
from symx.run import Job

PROPERTY = "C13"
ENCODED = [
    "menelaus.ensemble.election:SimpleMajorityElection.__call__",
    "menelaus.ensemble.election:MinimumApprovalElection.__call__",
    "menelaus.ensemble.election:OrderedApprovalElection.__call__",
    "menelaus.ensemble.election:ConfirmedElection.__call__",
]
BOUNDS = {
    "quick": "stateless elections: n<=5 members, approvals_needed>=1 and confirmations_needed>=0 unbounded symbolic "
             "integers; ConfirmedElection: one call from an arbitrary counter state (inductive step), n<=3 members, "
             "sensitivity and wait_time>=0 unbounded symbolic integers",
    "thorough": "stateless elections n<=6; ConfirmedElection inductive step n<=5, plus 3-call histories from the "
                "constructor for n<=2",
}
OUTSIDE = "more members than the bound; approvals_needed<1 / confirmations_needed<0 (outside the documented domain)"
ASSUMPTIONS = [
    "member detectors are modelled as objects exposing drift_state in {None,'warning','drift'} (the only attribute an election reads)",
    "approvals_needed >= 1, confirmations_needed >= 0, wait_time >= 0 (documented parameter domains)",
    "ConfirmedElection pre-state: counters in [0, wait_time] (representation invariant, proved inductive and to hold after the first call)",
]
TRUSTED = ["z3 (linear integer arithmetic)", "CPython interpreter executing the real election code on proxies"]


class Member:
    def __init__(self, st):
        self.drift_state = st


def _states(ctx, n, fixed=(), concrete=False):
    out = []
    for i in range(n):
        if i < len(fixed):
            out.append(fixed[i])
        else:
            st = ctx.state(f"s{i}")
            if concrete:
                # a real None / "warning" / "drift" per path, as real members report (an identity test such as
                # `state is None` cannot be followed on a proxy)
                st = "drift" if state_is(st, "drift") else ("warning" if state_is(st, "warning") else None)
            out.append(st)
    return out


def _count(states, what):
    return count(state_is(s, what) for s in states)


def body_stateless(ctx, kind, n, flip=None, concrete=False):
    from menelaus.ensemble import election as E

    states = _states(ctx, n, concrete=concrete)
    if kind == "majority":
        el = E.SimpleMajorityElection()
    elif kind == "minimum":
        a = ctx.int("a")
        ctx.assume(a >= 1)
        el = E.MinimumApprovalElection(approvals_needed=a)
    else:
        a = ctx.int("a")
        c = ctx.int("c")
        ctx.assume((a >= 1) & (c >= 0))
        el = E.OrderedApprovalElection(approvals_needed=a, confirmations_needed=c)
    res = el([Member(s) for s in states])
    ctx.prove(res is None or (isinstance(res, str) and res == "drift"), "range")
    cnt = _count(states, "drift")
    if kind == "majority":
        rule = 2 * cnt > n
    elif kind == "minimum":
        rule = cnt >= a
    else:
        rule = cnt >= a + c
    ctx.prove(iff(res == "drift", rule), f"{kind}-rule")
    ctx.witness("drift" if res == "drift" else "none")
    if flip is not None:
        # monotonicity: one more member reporting drift never retracts a drift verdict
        ctx.assume(lnot(state_is(states[flip], "drift")))
        st2 = list(states)
        st2[flip] = "drift"
        res2 = el([Member(s) for s in st2])
        ctx.prove((res != "drift") or (res2 == "drift"), f"{kind}-monotone")


def _spec_confirmed(states, counters, sens, wait):
    """Reference transition written from the statement of the property: a
    member is a *voter* in the call in which it newly reports drift and in each
    of its next wait_time calls in which it does not report warning; a warning
    call counts as a warning and does not use up waiting time."""
    voters = 0
    warns = 0
    newc = []
    for s, c in zip(states, counters):
        is_d = state_is(s, "drift")
        is_w = state_is(s, "warning")
        idle = c == 0
        newly = land(is_d, idle)
        still_waiting = land(lnot(idle), lnot(is_w))
        voter = lor(newly, still_waiting)
        warn = land(is_w, lnot(voter))
        voters = voters + b2i(voter)
        warns = warns + b2i(warn)
        used = ite(voter, c + 1, c)  # calls used so far, this one included
        newc.append(ite(used > wait, 0, used))
    verdict_drift = voters >= sens
    verdict_warn = land(lnot(verdict_drift), voters + warns >= sens)
    return verdict_drift, verdict_warn, newc


def body_confirmed_step(ctx, n, fixed=(), concrete=False):
    from menelaus.ensemble import election as E

    sens = ctx.int("sensitivity")
    wait = ctx.int("wait_time")
    ctx.assume(wait >= 0)
    states = _states(ctx, n, fixed, concrete=concrete)
    counters = [ctx.int(f"c{i}") for i in range(n)]
    for c in counters:
        ctx.assume((c >= 0) & (c <= wait))
    el = E.ConfirmedElection(sensitivity=sens, wait_time=wait)
    el.wait_period_counters = list(counters)
    sd, sw, newc = _spec_confirmed(states, counters, sens, wait)
    res = el([Member(s) for s in states])
    ctx.prove(res is None or res in ("drift", "warning"), "range")
    ctx.prove(iff(res == "drift", sd), "confirmed-drift-rule")
    ctx.prove(iff(res == "warning", sw), "confirmed-warning-rule")
    for i in range(n):
        got = el.wait_period_counters[i]
        ctx.prove(ctx.eq(got, newc[i]), "confirmed-counter")
        ctx.prove(land(got >= 0, got <= wait), "confirmed-counter-invariant")
    ctx.witness(str(res))


def body_confirmed_history(ctx, n, calls):
    """From the constructor (counters None): the invariant holds after the
    first call and the spec transition is followed call after call."""
    from menelaus.ensemble import election as E

    sens = ctx.int("sensitivity")
    wait = ctx.int("wait_time")
    ctx.assume(wait >= 0)
    el = E.ConfirmedElection(sensitivity=sens, wait_time=wait)
    counters = [0] * n
    for k in range(calls):
        states = [ctx.state(f"s{k}_{i}") for i in range(n)]
        sd, sw, counters = _spec_confirmed(states, counters, sens, wait)
        res = el([Member(s) for s in states])
        ctx.prove(iff(res == "drift", sd), "confirmed-drift-rule-history")
        ctx.prove(iff(res == "warning", sw), "confirmed-warning-rule-history")
        for i in range(n):
            got = el.wait_period_counters[i]
            ctx.prove(ctx.eq(got, counters[i]), "confirmed-counter-history")
        ctx.witness(str(res))


def jobs(tier):
    out = []
    nmax = 5 if tier == "quick" else 6
    for kind in ("majority", "minimum", "ordered"):
        for n in range(0, nmax + 1):
            out.append(Job(f"{kind}-n{n}", "checks.c13:body_stateless", {"kind": kind, "n": n},
                           expect=("none",) if n == 0 else ("drift", "none")))
        for n in range(1, 4):
            out.append(Job(f"{kind}-n{n}-concrete-states", "checks.c13:body_stateless", {"kind": kind, "n": n, "concrete": True},
                           expect=("drift", "none")))
        for n in range(1, min(nmax, 4) + 1):
            for k in range(n):
                out.append(Job(f"{kind}-mono-n{n}-flip{k}", "checks.c13:body_stateless",
                               {"kind": kind, "n": n, "flip": k}))
    cn = 3 if tier == "quick" else 5
    for n in range(1, cn + 1):
        nfix = max(0, n - 2)
        for fixed in product((None, "warning", "drift"), repeat=nfix):
            out.append(Job(f"confirmed-step-n{n}-{'-'.join(str(f) for f in fixed) or 'free'}",
                           "checks.c13:body_confirmed_step", {"n": n, "fixed": list(fixed)},
                           opts={"validate": 1}))
    for n in (1, 2):
        out.append(Job(f"confirmed-step-n{n}-concrete-states", "checks.c13:body_confirmed_step", {"n": n, "concrete": True},
                       opts={"validate": 1}))
    out.append(Job("confirmed-history-n1", "checks.c13:body_confirmed_history", {"n": 1, "calls": 3},
                   expect=("drift", "None")))
    if tier == "thorough":
        out.append(Job("confirmed-history-n2", "checks.c13:body_confirmed_history", {"n": 2, "calls": 3},
                       expect=("drift", "warning", "None")))
    return out
