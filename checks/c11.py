"""C11 - PCA-CD scores each component on aligned supports and alarms via Page-Hinkley.

B+A on the real PCACD.update.  sklearn's StandardScaler / PCA / KernelDensity
are shape-correct recording stubs (the scaler is an invertible affine map that
is *distinguishable* from the identity, so scaled and raw data cannot be
confused); np.histogram is recorded; the per-component divergences are symbolic
(uninterpreted functions of the two densities they are computed from), so the
real internal Page-Hinkley monitor takes symbolic scores and its decisions are
solver-quantified.  The run is compared after every sample with a reference
model of the statement; which rows reach which library call is checked by
identity of the (placeholder) values.
K: identical samples have intersection score 0 (histogram counting model).
"""
import importlib

import numpy as np
import pandas as pd

from symx.core import Sym, SymBool, cur, sym_min
from symx.logic import b2i, between, iff, implies, ite, land, lnot, lor, state_is
from symx.run import Job

from . import stubs
from .common import obj_array, rebind
from .c07 import counting_histogram

PROPERTY = "C11"
ENCODED = [
    "menelaus.data_drift.pca_cd:PCACD.__init__", "menelaus.data_drift.pca_cd:PCACD.update", "menelaus.data_drift.pca_cd:PCACD.reset",
    "menelaus.data_drift.pca_cd:PCACD._build_histograms", "menelaus.data_drift.pca_cd:PCACD._intersection_divergence",
    "menelaus.data_drift.pca_cd:PCACD._jensen_shannon_distance", "menelaus.change_detection.page_hinkley:PageHinkley.update",
]
BOUNDS = {
    "quick": "window_size in {2,4}, 3 features, 1-2 retained components, both metrics, online_scaling on/off, step in {1,2,3}, non-default ev_threshold, "
             "N<=4w+2 (w=2) / 2w+5 (w=4) samples of concrete placeholder rows (two data sets); divergences and hence Page-Hinkley decisions symbolic; "
             "identical-sample lemma: <=3 symbolic points, 2 bins",
    "thorough": "window_size in {2,3,4,5}, three data sets",
}
OUTSIDE = ("PCA / KDE / StandardScaler numerics and the ev_threshold semantics (sklearn); the Jensen-Shannon distance itself; "
           "rows are concrete placeholders (only the change scores, and so the alarm decisions, are symbolic); longer streams")
ASSUMPTIONS = [
    "StandardScaler stub: transform(x) = a*x + b with a=2, b=1 per feature (invertible, not the identity); PCA stub keeps the "
    "first k coordinates; KernelDensity / divergences are uninterpreted functions of their inputs",
    "np.histogram on symbolic data (identical-sample lemma) is the counting model on equally spaced edges",
]
TRUSTED = ["z3", "pandas concat/iloc", "numpy.histogram on the concrete placeholder projections"]


class Scaler:
    A, B = 2.0, 1.0
    log = None

    def fit_transform(self, X):
        Scaler.log.append(("scaler.fit_transform", np.asarray(X, dtype=float).copy()))
        return np.asarray(X, dtype=float) * self.A + self.B

    def transform(self, X):
        Scaler.log.append(("scaler.transform", np.asarray(X, dtype=float).copy()))
        return np.asarray(X, dtype=float) * self.A + self.B

    def inverse_transform(self, X):
        Scaler.log.append(("scaler.inverse_transform", np.asarray(X, dtype=float).copy()))
        return (np.asarray(X, dtype=float) - self.B) / self.A


def _make_pca(npcs_seq, log):
    """PCA stand-in: the k-th fitted instance retains npcs_seq[k] components (the number of components reaching
    ev_threshold may change from one reference window to the next)"""
    count = [0]

    class FakePCA:
        def __init__(self, ev):
            self.ev = ev
            log.append(("pca.init", ev))
            self.k = npcs_seq[min(count[0], len(npcs_seq) - 1)]
            count[0] += 1
            self.components_ = np.zeros((self.k, 0))

        def fit(self, X):
            X = np.asarray(X, dtype=float)
            log.append(("pca.fit", X.copy()))
            # like sklearn: the data are centred on the fitted mean before projecting (a projection that skips
            # `transform` and multiplies by components_ itself is then a different value; seed C11-9)
            self.mean_ = X.mean(axis=0)
            self.components_ = np.eye(X.shape[1])[: self.k]

        def transform(self, X):
            X = np.asarray(X, dtype=float)
            log.append(("pca.transform", X.copy()))
            return (X - self.mean_)[:, : self.k] * 1.0

    return FakePCA


EV = 0.9  # not the default


def _data(seed, n, dim):
    rs = np.random.RandomState(seed)
    return np.round(rs.rand(n, dim) * 10, 2)


def body_run(ctx, w, npcs, metric, scaling, period, seed, N=None, npcs_after=None):
    M = importlib.import_module("menelaus.data_drift.pca_cd")
    from menelaus.change_detection import PageHinkley

    dim = 3
    log = []
    Scaler.log = log
    memo = stubs.Memo()
    hist_calls, kde_calls = [], []
    real_hist = np.histogram

    def histogram(a, bins=10, range=None, density=None):
        hist_calls.append((np.asarray(a, dtype=float).copy(), bins, range))
        return real_hist(a, bins=bins, range=range, density=density)

    shim = stubs.NpShim(histogram=histogram)
    delta = ctx.real("ph_delta")
    N = N or 4 * w + 2
    X = _data(seed, N, dim)
    npcs_seq = [npcs] + ([npcs_after] if npcs_after else [])
    nbuilt = 0
    with rebind(M, StandardScaler=Scaler, PCA=_make_pca(npcs_seq, log), np=shim):
        d = M.PCACD(window_size=w, ev_threshold=EV, divergence_metric=metric, online_scaling=scaling, delta=delta,
                    sample_period=period)
        step = min(100, round(period * w))
        ctx.prove(d.step == step and d.ph_threshold == round(0.01 * w) and d.bins == int(np.floor(np.sqrt(w))), "derived-parameters")
        ctx.prove(d._drift_detection_monitor.burn_in == 0 and d._drift_detection_monitor.threshold == round(0.01 * w)
                  and d._drift_detection_monitor.delta is delta, "monitor-threshold-is-one-percent-of-window-rounded")

        def score(a, b):
            r = memo.get("score", (a, b), lambda: cur().real("score"))
            return r

        def kde(sample):
            kde_calls.append(np.asarray(sample, dtype=float).copy())
            return {"kde_of": stubs.keyof(np.asarray(sample, dtype=float))}

        d._intersection_divergence = score
        d._jensen_shannon_distance = score
        d._build_kde = kde
        # ---- reference model
        tr = (lambda a: np.asarray(a, dtype=float) * Scaler.A + Scaler.B) if scaling else (lambda a: np.asarray(a, dtype=float))
        ref_raw, test_raw = [], []
        built = False
        state = None
        twin = PageHinkley(delta=delta, threshold=round(0.01 * w), burn_in=0)
        since = 0
        for i in range(N):
            x = X[i:i + 1]
            del log[:], hist_calls[:], kde_calls[:]
            nscores = len(memo.calls)
            d.update(x)
            since += 1
            if state == "drift":
                # the sample that triggers the rebuild is discarded; the former test window (raw) is the reference
                ctx.prove(d.drift_state is None and d.samples_since_reset == 0, "update-after-drift-restarts")
                ref_raw, test_raw, built, state, since = list(test_raw), [], False, None, 0
                twin = PageHinkley(delta=delta, threshold=round(0.01 * w), burn_in=0)
                ctx.prove(np.allclose(np.asarray(d._reference_window, dtype=float), np.vstack(ref_raw)),
                          "former-test-window-unscaled-becomes-the-reference")
                ctx.witness("after-drift")
                continue
            if not built:
                if len(ref_raw) < w:
                    ref_raw.append(x[0])
                elif len(test_raw) < w:
                    test_raw.append(x[0])
                ctx.prove(d.drift_state is None, "silent-while-windows-fill")
                if len(test_raw) == w:
                    built = True
                    npcs = npcs_seq[min(nbuilt, len(npcs_seq) - 1)]  # components retained for this reference window
                    nbuilt += 1
                    R, T = np.vstack(ref_raw), np.vstack(test_raw)
                    fits = [e for e in log if e[0] == "pca.fit"]
                    ctx.prove(len(fits) == 1 and np.allclose(fits[0][1], tr(R)), "pca-fitted-on-the-reference-window-only")
                    inits = [e for e in log if e[0] == "pca.init"]
                    ctx.prove(len(inits) == 1 and type(inits[0][1]) is float and inits[0][1] == EV,
                              "components-selected-by-ev_threshold-for-every-reference-window")
                    if scaling:
                        ft = [e for e in log if e[0] == "scaler.fit_transform"]
                        ctx.prove(len(ft) == 1 and np.allclose(ft[0][1], R), "scaler-fitted-on-the-reference-window")
                    else:
                        ctx.prove(not [e for e in log if e[0].startswith("scaler")], "no-scaler-when-online-scaling-is-off")
                    proj = [e[1] for e in log if e[0] == "pca.transform"]
                    ctx.prove(len(proj) == 2 and np.allclose(proj[0], tr(R)) and np.allclose(proj[1], tr(T)),
                              "both-windows-projected (scaled iff online_scaling)")
                    mu = tr(R).mean(axis=0)  # what the (stand-in) PCA centres on: the mean of the window it was fitted on
                    ref_proj, test_proj = (tr(R) - mu)[:, :npcs], (tr(T) - mu)[:, :npcs]
                    ctx.prove(d.num_pcs == npcs, "num_pcs")
                    lower = [min(ref_proj[:, c].min(), test_proj[:, c].min()) for c in range(npcs)]
                    upper = [max(ref_proj[:, c].max(), test_proj[:, c].max()) for c in range(npcs)]
                    if metric == "intersection":
                        ctx.prove(len(hist_calls) == npcs, "one-reference-histogram-per-component")
                        for c, (a, bins, rng) in enumerate(hist_calls):
                            ctx.prove(np.allclose(a, ref_proj[:, c]) and bins == d.bins and np.isclose(rng[0], lower[c])
                                      and np.isclose(rng[1], upper[c]), "reference-histogram-on-that-components-own-support")
                    else:
                        ctx.prove(len(kde_calls) == npcs and all(np.allclose(kde_calls[c], ref_proj[:, c]) for c in range(npcs)),
                                  "reference-density-per-component")
                    ctx.witness("built")
                continue
            # ---- sliding phase
            test_raw = test_raw[1:] + [x[0]]
            newp = (tr(x) - mu)[:, :npcs][0].copy()
            if metric == "intersection":
                newp = np.array([min(max(newp[c], lower[c]), upper[c]) for c in range(npcs)])
            test_proj = np.vstack([test_proj[1:], newp])
            pj = [e[1] for e in log if e[0] == "pca.transform"]
            ctx.prove(len(pj) == 1 and np.allclose(pj[0], tr(x)), "new-observation-projected (scaled iff online_scaling)")
            ctx.prove(np.allclose(np.asarray(d._test_pca_projection, dtype=float), test_proj), "test-window-slides-by-one")
            scheduled = ((i + 1 - 1) % step == 0) and (i + 1 - 1) != 0
            new_scores = memo.calls[nscores:]
            if scheduled:
                ctx.prove(len(new_scores) == npcs, "one-divergence-per-component-on-schedule")
                if metric == "intersection":
                    ctx.prove(len(hist_calls) == npcs, "one-test-histogram-per-component")
                    for c, (a, bins, rng) in enumerate(hist_calls):
                        ctx.prove(np.allclose(a, test_proj[:, c]) and bins == d.bins and np.isclose(rng[0], lower[c])
                                  and np.isclose(rng[1], upper[c]), "test-histogram-on-the-same-edges-as-the-reference-of-that-component")
                else:
                    ctx.prove(len(kde_calls) == npcs and all(np.allclose(kde_calls[c], test_proj[:, c]) for c in range(npcs)),
                              "test-density-per-component")
                vals = [c[2] for c in new_scores]
                best = vals[0]
                for v in vals[1:]:
                    best = ite(v > best, v, best)
                ctx.prove(ctx.eq(d._change_score[-1], best), "maximum-component-divergence-is-the-change-score")
                twin.update(best)
                alarm = state_is(twin.drift_state, "drift")
                ctx.prove(iff(state_is(d.drift_state, "drift"), alarm), "drift-iff-page-hinkley-alarms")
                if state_is(d.drift_state, "drift") is True:
                    state = "drift"
                    ctx.witness("drift")
                else:
                    ctx.witness("no-drift")
            else:
                ctx.prove(not new_scores and not hist_calls, "no-evaluation-off-schedule")
                ctx.prove(d.drift_state is None, "no-alarm-off-schedule")


def body_identical(ctx, n):
    M = importlib.import_module("menelaus.data_drift.pca_cd")
    pts = [ctx.real(f"x{i}") for i in range(n)]
    lo, hi = ctx.real("lower"), ctx.real("upper")
    ctx.assume(lo < hi)
    for p in pts:
        ctx.assume(between(lo, p, hi))

    def histogram(a, bins=10, range=None, density=None):
        return (np.array(counting_histogram(list(np.asarray(a, dtype=object)), bins, range), dtype=object), [None] * (bins + 1))

    def minimum(a, b):
        return np.array([sym_min(x, y) for x, y in zip(a, b)], dtype=object)

    shim = stubs.NpShim(histogram=histogram, minimum=minimum)
    with rebind(M, np=shim):
        h1 = M.PCACD._build_histograms(np.array(pts, dtype=object), bins=2, bin_range=(lo, hi))
        h2 = M.PCACD._build_histograms(np.array(list(pts), dtype=object), bins=2, bin_range=(lo, hi))
        s = M.PCACD._intersection_divergence(h1, h2)
    ctx.prove(ctx.eq(s, 0), "identical-windows-have-intersection-score-zero")
    ctx.witness("lemma")


def body_constructor(ctx, lo, hi, period):
    """The derived settings for every window size in [lo, hi] (symbolic): evaluation step = min(100, round(sample_period x
    window)), Page-Hinkley threshold = 1% of the window rounded to an integer, handed to a monitor without burn-in.
    Exact ties of the rounding (window = 50 mod 100, where the double 0.01 x window and the real number differ) are
    assumed away."""
    M = importlib.import_module("menelaus.data_drift.pca_cd")
    w = ctx.int("window_size")
    ctx.assume(between(lo, w, hi))
    ctx.assume(lnot(w % 100 == 50))
    delta = ctx.real("delta")

    def floor(x):
        if not isinstance(x, Sym):
            return np.floor(x)
        k = ctx.int("floor")
        ctx.assume_unchecked(land(k <= x, x < k + 1))
        return k

    with rebind(M, np=stubs.NpShim(floor=floor)):
        d = M.PCACD(window_size=w, sample_period=period, delta=delta, divergence_metric="intersection")
    ph = d.ph_threshold
    ctx.prove(land(100 * ph - 50 < w, w < 100 * ph + 50), "page-hinkley-threshold-is-one-percent-of-the-window-rounded")
    mon = d._drift_detection_monitor
    ctx.prove(land(ctx.eq(mon.threshold, ph), mon.burn_in == 0, ctx.eq(mon.delta, delta)), "monitor-gets-threshold-delta-and-no-burn-in")
    st = d.step
    if period == 1.0:
        ctx.prove(st == sym_min(100, w), "step-is-min-100-and-rounded-period-times-window")
    else:
        # round(w / 20) away from ties, capped at 100
        ctx.assume(lnot(w % 20 == 10))
        ctx.prove(lor(land(st == 100, w >= 1990), land(st <= 100, 20 * st - 10 < w, w < 20 * st + 10)),
                  "step-is-min-100-and-rounded-period-times-window")
    b = d.bins
    ctx.prove(land(b * b <= w, w < (b + 1) * (b + 1)), "bins-is-floor-sqrt-window")
    ctx.witness("constructed")


def jobs(tier):
    q = tier == "quick"
    out = []
    # constructor arithmetic for every window size up to 400 (seed C11-8: int() instead of round() only shows from 51 on)
    for lo, hi in ((1, 49), (51, 110), (111, 170), (171, 230)) + (() if q else ((231, 290), (291, 349), (351, 400))):
        for period in (0.05, 1.0):
            out.append(Job(f"constructor-w{lo}to{hi}-p{period}", "checks.c11:body_constructor", {"lo": lo, "hi": hi, "period": period},
                           expect=("constructed",), opts={"validate": 2}))
    for w in (2, 4) if q else (2, 3, 4, 5):
        for npcs in (1, 2):
            for metric in ("intersection", "kl"):
                for scaling in (True, False):
                    for period in (0.5,):
                        for seed in (1, 2) if q else (1, 2, 3):
                            if q and seed == 2 and (npcs == 1 or metric == "kl"):
                                continue
                            # Page-Hinkley forks on every evaluation: the full 4w+2 history only for the smallest window
                            n = (4 * w + 2 if npcs == 1 else 3 * w + 2) if w == 2 else 2 * w + (5 if q else 7)
                            exp = ("built", "drift", "no-drift") + (("after-drift",) if w == 2 else ())
                            out.append(Job(f"run-w{w}-k{npcs}-{metric}-scale{int(scaling)}-p{period}-d{seed}", "checks.c11:body_run",
                                           {"w": w, "npcs": npcs, "metric": metric, "scaling": scaling, "period": period, "seed": seed,
                                            "N": n},
                                           expect=exp, opts={"validate": 1}))
    # the number of retained components changes from one reference window to the next (2 -> 1 and 1 -> 2)
    for a, b in ((2, 1), (1, 2)):
        for metric in ("intersection", "kl"):
            out.append(Job(f"run-w2-k{a}to{b}-{metric}", "checks.c11:body_run",
                           {"w": 2, "npcs": a, "npcs_after": b, "metric": metric, "scaling": metric == "kl", "period": 1.0,
                            "seed": 1, "N": 9},
                           expect=("built", "drift", "after-drift"), opts={"validate": 1}))
    # an evaluation step of 3 samples (window 3, sample_period 1.0): steps of 1 and 2 cannot tell `total - 1` from
    # `total + 1` in the schedule
    for metric, scaling in (("intersection", False), ("kl", True)):
        out.append(Job(f"run-w3-k1-{metric}-step3", "checks.c11:body_run",
                       {"w": 3, "npcs": 1, "metric": metric, "scaling": scaling, "period": 1.0, "seed": 1, "N": 13},
                       expect=("built", "drift", "no-drift"), opts={"validate": 1}))
    for n in (1, 2, 3):
        out.append(Job(f"identical-n{n}", "checks.c11:body_identical", {"n": n}, expect=("lemma",)))
    return out
