"""symx core: proxy values backed by z3 terms + a path explorer.

The real menelaus functions are run by the ordinary CPython interpreter on
these proxies.  ``SymBool.__bool__`` is the fork point: the explorer asks z3
which sides are feasible under the current path condition, follows one and
queues the other; the harness is re-executed from scratch for every queued
decision prefix (stateless DFS re-execution).

Only ``Exception`` subclasses may be caught by code under test; the
path-steering signals below derive from ``BaseException``.
"""
from __future__ import annotations

import math
import os
import time
from fractions import Fraction

import z3

# --------------------------------------------------------------------------
# signals


class PathAbort(BaseException):
    """The current path is infeasible / assumed away."""


class Inconclusive(BaseException):
    """Solver said unknown, a budget was exhausted, or a value is not encodable."""


class StopExploration(BaseException):
    """A violation was found and the harness asked to stop."""


_CUR = None  # the active context (Explorer path context or ConcreteCtx)


def cur():
    if _CUR is None:
        raise RuntimeError("no active symx context")
    return _CUR


def set_cur(c):
    global _CUR
    _CUR = c


# --------------------------------------------------------------------------
# value coercion

_NUMPY = None


def _np():
    global _NUMPY
    if _NUMPY is None:
        import numpy

        _NUMPY = numpy
    return _NUMPY


def _is_number(v):
    if isinstance(v, (bool, int, float, Fraction)):
        return True
    np = _np()
    return isinstance(v, (np.integer, np.floating, np.bool_))


def to_z3_num(v):
    """Exact z3 numeral for a concrete Python / numpy number (floats are the
    dyadic rationals they denote)."""
    np = _np()
    if isinstance(v, (bool, np.bool_)):
        return z3.IntVal(1 if v else 0)
    if isinstance(v, (int, np.integer)):
        return z3.IntVal(int(v))
    if isinstance(v, Fraction):
        if v.denominator == 1:
            return z3.IntVal(v.numerator)
        return z3.RealVal(str(v))
    if isinstance(v, (float, np.floating)):
        f = float(v)
        if math.isnan(f) or math.isinf(f):
            raise Inconclusive(f"non-finite float {f} cannot be encoded")
        fr = Fraction(f)
        if fr.denominator == 1:
            return z3.RealVal(fr.numerator)
        return z3.RealVal(str(fr))
    raise TypeError(f"cannot encode {type(v)}")


def _real(z):
    return z3.ToReal(z) if z.sort() == z3.IntSort() else z


def _unify(a, b):
    if a.sort() == b.sort():
        return a, b
    return _real(a), _real(b)


def _inf_sign(v):
    """+1/-1 if v is a concrete +-inf float, else 0."""
    np = _np()
    if isinstance(v, (float, np.floating)):
        f = float(v)
        if math.isinf(f):
            return 1 if f > 0 else -1
        if math.isnan(f):
            return 2
    return 0


# --------------------------------------------------------------------------
# proxies


class SymBool:
    __slots__ = ("z",)

    def __deepcopy__(self, memo):
        return self  # immutable

    def __copy__(self):
        return self

    def __init__(self, z):
        self.z = z

    def __bool__(self):
        return cur().branch(self.z)

    def __int__(self):
        return 1 if cur().branch(self.z) else 0

    __index__ = __int__

    def __and__(self, o):
        if isinstance(o, _np().ndarray):
            return NotImplemented
        return SymBool(z3.And(self.z, _zbool(o)))

    __rand__ = __and__

    def __or__(self, o):
        if isinstance(o, _np().ndarray):
            return NotImplemented
        return SymBool(z3.Or(self.z, _zbool(o)))

    __ror__ = __or__

    def __xor__(self, o):
        if isinstance(o, _np().ndarray):
            return NotImplemented
        return SymBool(z3.Xor(self.z, _zbool(o)))

    __rxor__ = __xor__

    def __invert__(self):
        return SymBool(z3.Not(self.z))

    def __eq__(self, o):
        if isinstance(o, (SymBool, bool)) or type(o).__name__ == "bool_":
            return SymBool(self.z == _zbool(o))
        if isinstance(o, Sym) or _is_number(o):
            return self.as_int() == o
        return NotImplemented

    def __ne__(self, o):
        r = self.__eq__(o)
        if r is NotImplemented:
            return r
        return SymBool(z3.Not(r.z))

    __hash__ = None

    def as_int(self):
        return Sym(z3.If(self.z, z3.IntVal(1), z3.IntVal(0)))

    # arithmetic on booleans behaves like 0/1 integers
    def __mul__(self, o):
        return self.as_int() * o

    __rmul__ = __mul__

    def __add__(self, o):
        return self.as_int() + o

    __radd__ = __add__

    def __sub__(self, o):
        return self.as_int() - o

    def __rsub__(self, o):
        return o - self.as_int()

    def __repr__(self):
        return f"SymBool({self.z})"


def _zbool(o):
    if isinstance(o, SymBool):
        return o.z
    if isinstance(o, z3.BoolRef):
        return o
    np = _np()
    if isinstance(o, (bool, np.bool_)):
        return z3.BoolVal(bool(o))
    if isinstance(o, Sym):
        return o.z != 0
    if isinstance(o, (int, np.integer)):
        return z3.BoolVal(bool(o))
    raise TypeError(f"not a boolean: {type(o)}")


class Sym:
    """Numeric proxy over a z3 Int or Real term."""

    __slots__ = ("z",)

    def __deepcopy__(self, memo):
        return self  # immutable

    def __copy__(self):
        return self

    def __init__(self, z):
        self.z = z

    # ---- helpers
    @property
    def is_int(self):
        return self.z.sort() == z3.IntSort()

    @staticmethod
    def _co(o):
        """Coerce operand to z3 term; returns None if unsupported."""
        if isinstance(o, Sym):
            return o.z
        if isinstance(o, SymBool):
            return o.as_int().z
        if _is_number(o):
            return to_z3_num(o)
        return None

    def _bin(self, o, f, swap=False):
        s = _inf_sign(o)
        if s == 2:
            return ("nan", 0)
        if s:
            return ("inf", s)
        oz = self._co(o)
        if oz is None:
            return None
        a, b = _unify(self.z, oz)
        if swap:
            a, b = b, a
        return f(a, b)

    # ---- arithmetic
    def __add__(self, o):
        r = self._bin(o, lambda a, b: a + b)
        if r is None:
            return NotImplemented
        if isinstance(r, tuple):
            return float("nan") if r[0] == "nan" else float("inf") * r[1]
        return Sym(r)

    __radd__ = __add__

    def __sub__(self, o):
        r = self._bin(o, lambda a, b: a - b)
        if r is None:
            return NotImplemented
        if isinstance(r, tuple):
            return float("nan") if r[0] == "nan" else float("-inf") * r[1]
        return Sym(r)

    def __rsub__(self, o):
        r = self._bin(o, lambda a, b: a - b, swap=True)
        if r is None:
            return NotImplemented
        if isinstance(r, tuple):
            return float("nan") if r[0] == "nan" else float("inf") * r[1]
        return Sym(r)

    def __mul__(self, o):
        if _inf_sign(o) == 2:
            return float("nan")
        if _inf_sign(o):
            raise Inconclusive("inf * symbolic")
        r = self._bin(o, lambda a, b: a * b)
        if r is None:
            return NotImplemented
        return Sym(r)

    __rmul__ = __mul__

    def __neg__(self):
        return Sym(-self.z)

    def __pos__(self):
        return self

    def __abs__(self):
        return Sym(z3.If(self.z >= 0, self.z, -self.z))

    def _div(self, num, den):
        c = cur()
        if c.check_nonzero(den) == "zero":
            # policy "havoc_zero": the divisor is forced to 0 on this path; numpy would give inf/nan - modelled
            # as an arbitrary value so that the path (and the obligations after it) is still explored
            return c.real("div_by_zero")
        return c.quotient(_real(num), _real(den))

    def __truediv__(self, o):
        if _inf_sign(o) == 2:
            return float("nan")
        if _inf_sign(o):
            return 0.0
        oz = self._co(o)
        if oz is None:
            return NotImplemented
        return self._div(self.z, oz)

    def __rtruediv__(self, o):
        if _inf_sign(o) == 2:
            return float("nan")
        if _inf_sign(o):
            raise Inconclusive("inf / symbolic")
        oz = self._co(o)
        if oz is None:
            return NotImplemented
        return self._div(oz, self.z)

    def __floordiv__(self, o):
        oz = self._co(o)
        if oz is None:
            return NotImplemented
        if self.is_int and oz.sort() == z3.IntSort():
            c = cur()
            c.check_nonzero(oz)
            # z3 integer division is Euclidean; it coincides with Python's floor
            # division for a positive divisor, which is required (and recorded).
            c.require_positive(oz, "floor divisor")
            return Sym(self.z / oz)
        raise Inconclusive("floordiv on reals")

    def __mod__(self, o):
        oz = self._co(o)
        if oz is None:
            return NotImplemented
        if self.is_int and oz.sort() == z3.IntSort():
            c = cur()
            c.check_nonzero(oz)
            c.require_positive(oz, "modulus")
            return Sym(self.z % oz)
        raise Inconclusive("mod on reals")

    def __pow__(self, o):
        np = _np()
        if isinstance(o, (int, np.integer)) and 0 <= int(o) <= 12:
            n = int(o)
            if n == 0:
                return 1
            z = self.z
            for _ in range(n - 1):
                z = z * self.z
            return Sym(z)
        if isinstance(o, (float, np.floating)) and float(o) == 0.5:
            return self.sqrt()
        if isinstance(o, (float, np.floating)) and float(o).is_integer() and 0 <= o <= 12:
            return self.__pow__(int(o))
        raise Inconclusive(f"unsupported power {o!r}")

    def __rpow__(self, o):
        raise Inconclusive("symbolic exponent")

    # ---- comparisons
    def _cmp(self, o, f, inf_pos, inf_neg, nan=False):
        s = _inf_sign(o)
        if s == 2:
            return nan
        if s:
            return inf_pos if s > 0 else inf_neg
        oz = self._co(o)
        if oz is None:
            return NotImplemented
        a, b = _unify(self.z, oz)
        return SymBool(f(a, b))

    def __lt__(self, o):
        return self._cmp(o, lambda a, b: a < b, True, False)

    def __le__(self, o):
        return self._cmp(o, lambda a, b: a <= b, True, False)

    def __gt__(self, o):
        return self._cmp(o, lambda a, b: a > b, False, True)

    def __ge__(self, o):
        return self._cmp(o, lambda a, b: a >= b, False, True)

    def __eq__(self, o):
        if o is None or isinstance(o, str):
            return False
        return self._cmp(o, lambda a, b: a == b, False, False)

    def __ne__(self, o):
        if o is None or isinstance(o, str):
            return True
        return self._cmp(o, lambda a, b: a != b, True, True, nan=True)

    __hash__ = None

    # ---- conversions (solver-driven case splits)
    def __bool__(self):
        return cur().branch(self.z != 0)

    def __int__(self):
        return cur().concretize_int(self.z if self.is_int else z3.ToInt(self.z))

    def __index__(self):
        if not self.is_int:
            raise TypeError("real-valued symbolic index")
        return cur().concretize_int(self.z)

    def __float__(self):
        raise Inconclusive("float() of a symbolic value (C boundary)")

    def __round__(self, n=None):
        if n is not None:
            # decimal rounding is not modelled: an uninterpreted function of x (used for labels / cache keys only)
            return cur().uf1(f"round_{n}_digits", self)
        if self.is_int:
            return self
        return cur().round_half_even(self)

    # ---- numpy protocol (object arrays dispatch here)
    def sqrt(self):
        return cur().sqrt(self)

    def log(self):
        return cur().uf1("log", self)

    def exp(self):
        return cur().uf1("exp", self)

    def conjugate(self):
        return self

    @property
    def real(self):
        return self

    @property
    def imag(self):
        return 0

    def __repr__(self):
        return f"Sym({self.z})"


def sym_ite(c, a, b):
    """Non-forking if-then-else over proxies / numbers."""
    if isinstance(c, bool) or type(c).__name__ == "bool_":
        return a if c else b
    cz = _zbool(c)
    if isinstance(a, (SymBool, bool)) and isinstance(b, (SymBool, bool)):
        return SymBool(z3.If(cz, _zbool(a), _zbool(b)))
    az = Sym._co(a)
    bz = Sym._co(b)
    if az is None or bz is None:
        raise TypeError("sym_ite over non-numeric values")
    az, bz = _unify(az, bz)
    return Sym(z3.If(cz, az, bz))


def _elementwise(f, args):
    """Apply f over broadcast object arrays when any argument is an ndarray."""
    np = _np()
    if any(isinstance(a, np.ndarray) for a in args):
        bs = np.broadcast_arrays(*[np.asarray(a, dtype=object) for a in args])
        out = np.empty(bs[0].shape, dtype=object)
        for idx in np.ndindex(out.shape):
            out[idx] = f(*[b[idx] for b in bs])
        return out
    return f(*args)


def _max2(a, r):
    c = a > r
    return sym_ite(c, a, r) if isinstance(c, SymBool) else (a if c else r)


def _min2(a, r):
    c = a < r
    return sym_ite(c, a, r) if isinstance(c, SymBool) else (a if c else r)


def sym_max(*args):
    """Non-forking max (ite chain); element-wise on arrays."""
    if len(args) == 1:
        args = list(args[0])
    r = args[0]
    for a in args[1:]:
        r = _elementwise(_max2, (a, r))
    return r


def sym_min(*args):
    if len(args) == 1:
        args = list(args[0])
    r = args[0]
    for a in args[1:]:
        r = _elementwise(_min2, (a, r))
    return r


def is_sym(v):
    return isinstance(v, (Sym, SymBool, SymState, SymLabel))


# --------------------------------------------------------------------------
# drift-state and label proxies


class SymState:
    """A drift state: None / "warning" / "drift" as a z3 Int in {0,1,2}."""

    __slots__ = ("z",)
    CODES = {None: 0, "warning": 1, "drift": 2}

    def __deepcopy__(self, memo):
        return self  # immutable

    def __copy__(self):
        return self

    def __init__(self, z):
        self.z = z

    def __eq__(self, o):
        if isinstance(o, SymState):
            return SymBool(self.z == o.z)
        try:
            code = self.CODES[o]
        except (KeyError, TypeError):
            return False
        return SymBool(self.z == code)

    def __ne__(self, o):
        r = self.__eq__(o)
        if isinstance(r, SymBool):
            return SymBool(z3.Not(r.z))
        return not r

    __hash__ = None

    def __repr__(self):
        return f"SymState({self.z})"


class SymLabel:
    """A class label of unknown encoding: supports equality only."""

    __slots__ = ("z",)

    def __deepcopy__(self, memo):
        return self  # immutable

    def __copy__(self):
        return self

    def __init__(self, z):
        self.z = z

    def __eq__(self, o):
        if isinstance(o, SymLabel):
            return SymBool(self.z == o.z)
        return NotImplemented

    def __ne__(self, o):
        if isinstance(o, SymLabel):
            return SymBool(self.z != o.z)
        return NotImplemented

    __hash__ = None

    def __repr__(self):
        return f"SymLabel({self.z})"


LabelSort = z3.DeclareSort("Label")


# --------------------------------------------------------------------------
# explorer


class Violation:
    def __init__(self, label, model, decisions, detail=None):
        self.label = label
        self.model = model
        self.decisions = decisions
        self.detail = detail

    def to_json(self):
        return {
            "label": self.label,
            "model": self.model,
            "decisions": self.decisions,
            "detail": self.detail,
        }


class Stats:
    def __init__(self):
        self.paths = 0
        self.aborted_paths = 0
        self.queries = 0
        self.unknown = 0
        self.solver_s = 0.0
        self.proved = 0
        self.forks = 0
        self.div_assumptions = 0
        self.sqrt_assumptions = 0
        self.side_unknown = 0
        self.fresh_solver_queries = 0
        self.witnesses = {}
        self.samples = []
        self.exceptions = {}

    def merge(self, o):
        for k in ("paths", "aborted_paths", "queries", "unknown", "proved", "forks",
                  "div_assumptions", "sqrt_assumptions", "side_unknown", "fresh_solver_queries"):
            setattr(self, k, getattr(self, k) + getattr(o, k))
        self.solver_s += o.solver_s
        for k, v in o.witnesses.items():
            self.witnesses[k] = self.witnesses.get(k, 0) + v
        for k, v in o.exceptions.items():
            self.exceptions[k] = self.exceptions.get(k, 0) + v
        self.samples.extend(o.samples[: max(0, 6 - len(self.samples))])

    def to_json(self):
        d = dict(self.__dict__)
        d["solver_s"] = round(self.solver_s, 3)
        return d


def model_value(m, z):
    v = m.eval(z, model_completion=True)
    if z3.is_int_value(v):
        return v.as_long()
    if z3.is_rational_value(v):
        fr = Fraction(v.numerator_as_long(), v.denominator_as_long())
        return {"num": fr.numerator, "den": fr.denominator}
    if z3.is_algebraic_value(v):
        a = v.approx(30)
        fr = Fraction(a.numerator_as_long(), a.denominator_as_long())
        return {"num": fr.numerator, "den": fr.denominator, "approx": True}
    if z3.is_true(v):
        return True
    if z3.is_false(v):
        return False
    return str(v)


def model_float(x):
    if isinstance(x, dict):
        return x["num"] / x["den"]
    return x


_VARS_CACHE = {}


def _term_vars(t):
    """Names of the uninterpreted constants / functions occurring in a term."""
    key = t.get_id()
    hit = _VARS_CACHE.get(key)
    if hit is not None and hit[0].eq(t):
        return hit[1]
    out = set()
    seen = set()
    stack = [t]
    while stack:
        x = stack.pop()
        i = x.get_id()
        if i in seen:
            continue
        seen.add(i)
        if z3.is_app(x):
            d = x.decl()
            if d.kind() == z3.Z3_OP_UNINTERPRETED:
                out.add(d.name())
            stack.extend(x.children())
        elif z3.is_quantifier(x):
            stack.append(x.body())
    fs = frozenset(out)
    if len(_VARS_CACHE) > 200000:
        _VARS_CACHE.clear()
    _VARS_CACHE[key] = (t, fs)
    return fs


def _default_value(z):
    s = z.sort()
    if s == z3.IntSort() or s == z3.RealSort():
        return 0
    if s == z3.BoolSort():
        return False
    return str(z) + "!default"


class Ctx:
    """Context handed to harness bodies while exploring symbolically."""

    symbolic = True

    def __init__(self, explorer):
        self.ex = explorer
        self.solver = explorer.solver
        self.stats = explorer.stats
        self.prefix = explorer._prefix
        self.pos = 0
        self.decisions = []
        self.names = {}
        self.symbols = {}  # name -> z3 const (in creation order)
        self.notes = []
        self.ufs = {}
        self.uf_apps = {}
        self.pc = []
        self.pc_vars = []
        self.pc_def = []
        self.known = {}
        self._last_model = None

    # ---- symbol creation
    def _name(self, base):
        k = self.names.get(base, 0)
        self.names[base] = k + 1
        return base if k == 0 else f"{base}#{k}"

    def real(self, name):
        n = self._name(name)
        z = z3.Real(n)
        self.symbols[n] = z
        return Sym(z)

    def int(self, name):
        n = self._name(name)
        # relax_ints: integrality dropped (sound over-approximation for proofs;
        # keeps the queries in nonlinear *real* arithmetic, which z3 decides)
        z = z3.Real(n) if self.ex.relax_ints else z3.Int(n)
        self.symbols[n] = z
        return Sym(z)

    def bool(self, name):
        n = self._name(name)
        z = z3.Bool(n)
        self.symbols[n] = z
        return SymBool(z)

    def state(self, name):
        n = self._name(name)
        z = z3.Int(n)
        self.symbols[n] = z
        self._add(z >= 0, z <= 2)
        return SymState(z)

    def label(self, name):
        n = self._name(name)
        z = z3.Const(n, LabelSort)
        self.symbols[n] = z
        return SymLabel(z)

    # ---- solver interaction
    # ---- path condition with independence slicing
    def _add(self, *cs, defines=None):
        """Add constraints to the path condition.  ``defines`` names a fresh
        variable that these constraints define totally (e.g. r with r>=0 and
        r*r == x, given x>=0): such constraints are only sent to the solver
        when the defined variable is itself relevant to the query."""
        for c in cs:
            if isinstance(c, bool):
                c = z3.BoolVal(c)
            elif self.ex.normalize:
                # sum-of-monomials normal form: equal polynomial constraints become
                # syntactically equal, which the solver's preprocessing exploits
                c = z3.simplify(c, som=True)
            self.pc.append(c)
            self.pc_vars.append(_term_vars(c))
            self.pc_def.append(defines)

    def _slice(self, extras):
        need = set()
        for e in extras:
            need |= _term_vars(e)
        chosen = []
        remaining = list(range(len(self.pc)))
        changed = True
        while changed and remaining:
            changed = False
            rest = []
            for i in remaining:
                v = self.pc_vars[i]
                dv = self.pc_def[i]
                if dv is not None and dv not in need:
                    rest.append(i)
                    continue
                if not v or (v & need):
                    need |= v
                    chosen.append(i)
                    changed = changed or bool(v)
                else:
                    rest.append(i)
            remaining = rest
        chosen.sort()
        return [self.pc[i] for i in chosen]

    def _solve(self, constraints, timeout_ms=None, count_unknown=True):
        """Portfolio: (1) the shared incremental solver under a short budget
        (cheap, decides almost everything); (2) on unknown, a fresh solver with
        no push/pop scopes, so that z3 runs its full non-incremental tactic
        pipeline (nlsat), which decides nonlinear real queries the incremental
        core gives up on."""
        full = timeout_ms if timeout_ms is not None else self.ex.query_timeout_ms
        t = time.perf_counter()
        s = self.solver
        s.push()
        try:
            s.set("timeout", min(full, self.ex.incremental_timeout_ms))
            s.add(*constraints)
            r = s.check()
            m = s.model() if r == z3.sat else None
        finally:
            s.pop()
        if r == z3.unknown:
            s = z3.Solver()
            s.set("timeout", full)
            s.add(*constraints)
            r = s.check()
            m = s.model() if r == z3.sat else None
            self.stats.fresh_solver_queries += 1
        if r == z3.unknown and full > self.ex.incremental_timeout_ms:
            # the incremental core again, now with the full budget: it decides some queries in about a second that the
            # other pipelines give up on, and its first (short) attempt can time out merely because the machine is busy
            s4 = self.solver
            s4.push()
            try:
                s4.set("timeout", full)
                s4.add(*constraints)
                r4 = s4.check()
                if r4 != z3.unknown:
                    r = r4
                    m = s4.model() if r4 == z3.sat else None
                    s = s4
            finally:
                s4.pop()
        if r == z3.unknown:
            # last resort: the dedicated nonlinear-real tactic (only applicable to pure real-arithmetic queries)
            try:
                s3 = z3.Then("simplify", "purify-arith", "qfnra-nlsat").solver()
                s3.set("timeout", full)
                s3.add(*constraints)
                r3 = s3.check()
                if r3 != z3.unknown:
                    r = r3
                    m = s3.model() if r3 == z3.sat else None
                    s = s3
            except z3.Z3Exception:
                pass
        self.stats.solver_s += time.perf_counter() - t
        self.stats.queries += 1
        if r == z3.unknown:
            if count_unknown:
                self.stats.unknown += 1
                dump = os.environ.get("SYMX_DUMP_UNKNOWN")
                if dump:
                    os.makedirs(dump, exist_ok=True)
                    with open(os.path.join(dump, f"q{os.getpid()}_{self.stats.queries}.smt2"), "w") as f:
                        f.write(s.to_smt2())
            else:
                self.stats.side_unknown += 1
        return r, m

    def _check_quick(self, *extras):
        """Side-condition probe with a short budget; unknown is returned as such
        and does not count as an inconclusive query."""
        cons = self._slice(list(extras)) + list(extras)
        r, m = self._solve(cons, timeout_ms=self.ex.side_timeout_ms, count_unknown=False)
        return r

    def _check(self, *extras):
        """Satisfiability of pc and extras.  Only the constraints that share
        variables (transitively) with ``extras`` are sent to the solver; the
        rest of the path condition is satisfiable by construction and
        independent.  With no extras the whole path condition is checked."""
        extras = [e for e in extras]
        if extras:
            cons = self._slice(extras) + extras
        else:
            cons = list(self.pc)
        r, m = self._solve(cons)
        self._last_model = m
        return r

    def full_model(self, *extras):
        """A model of the whole path condition plus extras, solved per
        connected component; returns {symbol name: python value} or None."""
        cons = list(self.pc) + list(extras)
        vs = [_term_vars(c) for c in cons]
        # connected components over shared variables
        comp = list(range(len(cons)))
        owner = {}
        def find(i):
            while comp[i] != i:
                comp[i] = comp[comp[i]]
                i = comp[i]
            return i
        for i, v in enumerate(vs):
            for name in v:
                if name in owner:
                    a, b = find(i), find(owner[name])
                    if a != b:
                        comp[a] = b
                else:
                    owner[name] = i
        groups = {}
        for i in range(len(cons)):
            groups.setdefault(find(i), []).append(i)
        values = {}
        self._full_model_status = "sat"
        for g in groups.values():
            r, m = self._solve([cons[i] for i in g], count_unknown=False)
            if r != z3.sat:
                self._full_model_status = "unsat" if r == z3.unsat else "unknown"
                return None
            gv = set()
            for i in g:
                gv |= vs[i]
            for n, z in self.symbols.items():
                if n in gv:
                    values[n] = model_value(m, z)
        for n, z in self.symbols.items():
            if n not in values:
                values[n] = _default_value(z)
        return values

    def branch(self, z):
        z = z3.simplify(z)
        if z3.is_true(z):
            return True
        if z3.is_false(z):
            return False
        # a condition already decided on this path (or its negation) is not asked again
        neg = z.arg(0) if z3.is_not(z) else None
        hit = self.known.get(z.get_id())
        if hit is not None and hit[0].eq(z):
            return hit[1]
        if neg is not None:
            hit = self.known.get(neg.get_id())
            if hit is not None and hit[0].eq(neg):
                return not hit[1]
        if self.pos < len(self.prefix):
            d = self.prefix[self.pos]
            if isinstance(d, tuple):
                raise Inconclusive("decision prefix out of sync (non-deterministic harness?)")
            self.pos += 1
            self.decisions.append(d)
            self._add(z if d else z3.Not(z))
            self.known[z.get_id()] = (z, d)
            return d
        rt = self._check(z)
        rf = self._check(z3.Not(z))
        if rt == z3.unknown or rf == z3.unknown:
            raise Inconclusive(f"unknown on branch condition {str(z)[:200]}")
        if rt == z3.sat and rf == z3.sat:
            self.stats.forks += 1
            self.ex._push(self.decisions + [False])
            d = True
        elif rt == z3.sat:
            d = True
        elif rf == z3.sat:
            d = False
        else:
            raise PathAbort()
        self.pos += 1
        self.decisions.append(d)
        self._add(z if d else z3.Not(z))
        self.known[z.get_id()] = (z, d)
        return d

    def concretize_int(self, z, limit=64):
        """Solver-driven case split on the value of an integer term.

        Decisions: ("v", k) = the term equals k; ("n", k) = the term differs
        from k (ask again at the same point).  More than ``limit`` distinct
        values make the path inconclusive (unbounded split)."""
        z = z3.simplify(z)
        if z3.is_int_value(z):
            return z.as_long()
        excluded = 0
        while True:
            if self.pos < len(self.prefix):
                d = self.prefix[self.pos]
                if not isinstance(d, tuple):
                    raise Inconclusive("decision prefix out of sync (non-deterministic harness?)")
                self.pos += 1
                self.decisions.append(d)
                if d[0] == "n":
                    self._add(z != d[1])
                    excluded += 1
                    continue
                self._add(z == d[1])
                return d[1]
            r = self._check(z == z)
            if r == z3.unknown:
                raise Inconclusive("unknown while concretising an integer")
            if r == z3.unsat:
                raise PathAbort()
            v = self._last_model.eval(z, model_completion=True).as_long()
            r2 = self._check(z != v)
            if r2 == z3.unknown:
                raise Inconclusive("unknown while concretising an integer")
            if r2 == z3.sat:
                if excluded + 1 > limit:
                    raise Inconclusive(f"unbounded integer case split on {str(z)[:120]}")
                self.stats.forks += 1
                self.ex._push(self.decisions + [("n", v)])
            d = ("v", v)
            self.pos += 1
            self.decisions.append(d)
            self._add(z == v)
            return v

    def assume(self, c):
        if isinstance(c, bool):
            if not c:
                raise PathAbort()
            return
        cz = _zbool(c)
        r = self._check(cz)
        if r == z3.unsat:
            raise PathAbort()
        if r == z3.unknown:
            raise Inconclusive("unknown after assume")
        self._add(cz)

    def assume_unchecked(self, c):
        """Add a constraint without a feasibility query (definitional facts)."""
        if isinstance(c, bool):
            if not c:
                raise PathAbort()
            return
        self._add(_zbool(c))

    def prove(self, c, label, detail=None):
        """Obligation: c holds on every model of the current path condition."""
        if isinstance(c, bool) or type(c).__name__ == "bool_":
            if c:
                self.stats.proved += 1
                return True
            neg = z3.BoolVal(True)
        else:
            neg = z3.Not(_zbool(c))
            if self.ex.normalize:
                neg = z3.simplify(neg, som=True)
                if z3.is_false(neg):
                    self.stats.proved += 1
                    return True
        r = self._check(neg)
        if r == z3.unsat:
            self.stats.proved += 1
            return True
        if r == z3.unknown:
            raise Inconclusive(f"unknown on obligation {label}")
        # sat: counterexample
        model = self.full_model(neg)
        if model is None and self._full_model_status == "unsat":
            # the sliced query leaves out constraints that define a variable (a rounding, a square root, a quotient); when
            # the path condition constrains that variable they matter after all: the complete path condition refutes the
            # candidate counterexample, i.e. the obligation holds on this path
            self.stats.proved += 1
            return True
        if model is None:
            raise Inconclusive(f"could not build a full model for the counterexample of {label}")
        v = Violation(label, model, _dec_json(self.decisions), detail)
        self.ex.violations.append(v)
        raise StopExploration()

    def eq(self, a, b):
        """Equality usable in both symbolic and concrete mode."""
        if a is None or b is None:
            return a is None and b is None
        r = a == b
        return r

    def le(self, a, b, tol=1e-9):
        """a <= b, exactly (the concrete replay allows ``tol`` of float slack)"""
        return a <= b

    def approx(self, a, b, tol=1e-9):
        """|a - b| <= tol: for comparisons where one side went through concrete
        IEEE arithmetic (e.g. 1/3 as a double) and the other is exact."""
        d = a - b
        if isinstance(d, Sym):
            return SymBool(z3.And(d.z <= to_z3_num(tol), d.z >= to_z3_num(-tol)))
        return abs(d) <= tol

    def feasible(self, c):
        r = self._check(_zbool(c))
        if r == z3.unknown:
            raise Inconclusive("unknown in feasibility probe")
        return r == z3.sat

    def witness(self, label):
        self.stats.witnesses[label] = self.stats.witnesses.get(label, 0) + 1

    def note(self, s):
        self.notes.append(s)

    # ---- arithmetic side conditions
    def check_nonzero(self, den):
        den = z3.simplify(den)
        if z3.is_int_value(den) or z3.is_rational_value(den):
            zero = den.as_fraction() == 0 if z3.is_rational_value(den) else den.as_long() == 0
            if zero:
                if self.ex.div_policy == "havoc_zero":
                    return "zero"
                # numpy floats give inf/nan here, Python numbers raise: either way
                # outside the real-arithmetic model -> the path is assumed away (counted)
                self.stats.div_assumptions += 1
                raise PathAbort()
            return
        pol = self.ex.div_policy
        if pol == "raise":
            if self.branch(den == 0):
                raise ZeroDivisionError("division by zero (symbolic)")
            return
        # policy "assume": the divisor is assumed non-zero (recorded); paths on
        # which it must be zero are dropped
        r = self._check_quick(den == 0)
        if r == z3.unsat:
            return
        r2 = self._check_quick(den != 0)
        if r2 == z3.unsat:
            if pol == "havoc_zero":
                return "zero"
            raise PathAbort()
        self.stats.div_assumptions += 1
        self._add(den != 0)

    def require_positive(self, z, what):
        r = self._check_quick(z <= 0)
        if r != z3.unsat:
            r2 = self._check_quick(z > 0)
            if r2 == z3.unsat:
                raise PathAbort()
            self._add(z > 0)
            self.stats.div_assumptions += 1

    def sqrt(self, x):
        xz = _real(x.z)
        xs = z3.simplify(xz, som=True)
        if z3.is_rational_value(xs):
            fr = xs.as_fraction()
            if fr >= 0:
                # exact rational square root if it exists
                n, d = fr.numerator, fr.denominator
                rn, rd = math.isqrt(n), math.isqrt(d)
                if rn * rn == n and rd * rd == d:
                    return Sym(z3.RealVal(str(Fraction(rn, rd))))
        key = ("sqrt", xs.get_id())
        r = self.ex._sqrt_cache.get(key)
        if r is None:
            n = self._name("sqrt")
            r = z3.Real(n)
            self.ex._sqrt_cache[key] = r
        # x >= 0 is numpy's domain for a real result; NaN otherwise
        if self.ex.sqrt_policy == "assume":
            neg = self._check_quick(xz < 0)
            if neg != z3.unsat:
                r2 = self._check_quick(xz >= 0)
                if r2 == z3.unsat:
                    raise PathAbort()
                self.stats.sqrt_assumptions += 1
                self._add(xz >= 0)
        self._add(r >= 0, r * r == xz, defines=r.decl().name())
        return Sym(r)

    def quotient(self, num, den):
        """num / den.  For a non-constant divisor the quotient is a fresh
        variable q defined by q * den == num (den != 0 is already on the path
        condition), which keeps the constraints polynomial for nlsat."""
        den_s = z3.simplify(den)
        if z3.is_rational_value(den_s) or z3.is_int_value(den_s) or not self.ex.poly_division:
            return Sym(num / den)
        # sum-of-monomials normal form: equal polynomials share one quotient variable
        num = z3.simplify(num, som=True)
        den = z3.simplify(den, som=True)
        key = ("quot", num.get_id(), den.get_id())
        hit = self.ex._sqrt_cache.get(key)
        if hit is not None and hit[1].eq(num) and hit[2].eq(den):
            return Sym(hit[0])
        q = z3.Real(self._name("quot"))
        self.ex._sqrt_cache[key] = (q, num, den)
        self._add(q * den == num, defines=q.decl().name())
        return Sym(q)

    def round_half_even(self, x):
        """Python's round(x): the nearest integer, ties to the even one (fresh
        integer k defined by |x-k| <= 1/2 and the tie rule)."""
        k = z3.Int(self._name("round"))
        xz = _real(x.z)
        kr = z3.ToReal(k)
        half = z3.RealVal("1/2")
        self._add(kr - half <= xz, xz <= kr + half,
                  z3.Implies(xz == kr + half, k % 2 == 0), z3.Implies(xz == kr - half, k % 2 == 0),
                  defines=k.decl().name())
        return Sym(k)

    def uf(self, name, *sorts):
        f = self.ufs.get(name)
        if f is None:
            f = z3.Function(name, *sorts)
            self.ufs[name] = f
        return f

    def uf1(self, name, x):
        f = self.uf(name, z3.RealSort(), z3.RealSort())
        xz = _real(Sym._co(x))
        app = f(xz)
        apps = self.uf_apps.setdefault(name, [])
        # monotonicity axioms instantiated pairwise on the occurring arguments
        if name in ("log", "exp", "sqrtuf", "PhiF"):
            for (oz, oapp) in apps:
                self._add(z3.Implies(oz < xz, oapp < app))
                self._add(z3.Implies(oz > xz, oapp > app))
                self._add(z3.Implies(oz == xz, oapp == app))
        if name == "log":
            self._add(z3.Implies(xz > 1, app > 0), z3.Implies(xz == 1, app == 0),
                            z3.Implies(xz < 1, app < 0))
        apps.append((xz, app))
        return Sym(app)


def _dec_json(decs):
    out = []
    for d in decs:
        out.append(list(d) if isinstance(d, tuple) else d)
    return out


class Explorer:
    """Explore all paths of ``body(ctx)``."""

    def __init__(self, query_timeout_ms=30000, max_paths=200000, wall_budget_s=None,
                 div_policy="assume", sqrt_policy="assume", stop_on_violation=True,
                 relax_ints=False, side_timeout_ms=2000, poly_division=True, normalize=True,
                 incremental_timeout_ms=1500):
        self.solver = z3.Solver()
        self.solver.set("timeout", query_timeout_ms)
        self.query_timeout_ms = query_timeout_ms
        self.side_timeout_ms = side_timeout_ms
        self.stats = Stats()
        self.violations = []
        self.max_paths = max_paths
        self.wall_budget_s = wall_budget_s
        self.div_policy = div_policy
        self.sqrt_policy = sqrt_policy
        self.stop_on_violation = stop_on_violation
        self.relax_ints = relax_ints
        self.poly_division = poly_division
        self.normalize = normalize
        self.incremental_timeout_ms = incremental_timeout_ms
        self._work = []
        self._prefix = []
        self._sqrt_cache = {}
        self.inconclusive = []
        self.path_log = []

    def _push(self, decisions):
        self._work.append(list(decisions))

    def run(self, body):
        t0 = time.perf_counter()
        self._work = [[]]
        while self._work:
            if self.stats.paths >= self.max_paths:
                self.inconclusive.append(f"path budget {self.max_paths} exhausted")
                break
            if self.wall_budget_s and time.perf_counter() - t0 > self.wall_budget_s:
                self.inconclusive.append(f"wall budget {self.wall_budget_s}s exhausted")
                break
            prefix = self._work.pop()
            # translate ("n", v) tail into the replay format
            self._prefix = prefix
            self._sqrt_cache = {}
            ctx = Ctx(self)
            set_cur(ctx)
            try:
                body(ctx)
                self.stats.paths += 1
            except PathAbort:
                self.stats.aborted_paths += 1
            except StopExploration:
                self.stats.paths += 1
                if self.stop_on_violation:
                    set_cur(None)
                    break
            except Inconclusive as e:
                self.stats.paths += 1
                self.inconclusive.append(str(e))
                set_cur(None)
                break
            except Exception as e:  # the code under test raised on an input the harness deems accepted
                import traceback

                self.stats.paths += 1
                tb = "".join(traceback.format_exception(type(e), e, e.__traceback__))[-1500:]
                model = None
                try:
                    model = ctx.full_model()
                except BaseException:  # noqa: BLE001
                    model = None
                if model is None:
                    self.inconclusive.append(f"exception {type(e).__name__}: {e} (no model)\n{tb}")
                    set_cur(None)
                    break
                self.violations.append(Violation(f"unexpected-exception:{type(e).__name__}", model,
                                                 _dec_json(ctx.decisions), tb))
                if self.stop_on_violation:
                    set_cur(None)
                    break
            set_cur(None)
        self.stats.wall_s = round(time.perf_counter() - t0, 3)
        return self

