"""Concrete replay context: the same harness body, run on plain Python values
taken from a solver model, against the real code with no proxies."""
from __future__ import annotations

import math

from .core import PathAbort, model_float


def close(a, b, rel=1e-7, abs_=1e-9):
    if a is None or b is None:
        return a is None and b is None
    if isinstance(a, str) or isinstance(b, str):
        return a == b
    try:
        fa, fb = float(a), float(b)
    except (TypeError, ValueError):
        return a == b
    if math.isnan(fa) or math.isnan(fb):
        return False
    if math.isinf(fa) or math.isinf(fb):
        return fa == fb
    return math.isclose(fa, fb, rel_tol=rel, abs_tol=abs_)


class ConcreteCtx:
    symbolic = False

    def __init__(self, model):
        self.model = model or {}
        self.names = {}
        self.failed = []
        self.missing = []
        self.notes = []
        self.witnesses = {}
        self.stubbed = []  # names of library results replaced by model constants

    def _name(self, base):
        k = self.names.get(base, 0)
        self.names[base] = k + 1
        return base if k == 0 else f"{base}#{k}"

    def _get(self, name, default):
        n = self._name(name)
        if n not in self.model:
            self.missing.append(n)
            return default
        return self.model[n]

    def has(self, name):
        """Would the next symbol called ``name`` be found in the model?"""
        k = self.names.get(name, 0)
        n = name if k == 0 else f"{name}#{k}"
        return n in self.model

    def real(self, name):
        return float(model_float(self._get(name, 0.0)))

    def int(self, name):
        v = model_float(self._get(name, 0))
        return int(v) if float(v).is_integer() else float(v)

    def bool(self, name):
        return bool(self._get(name, False))

    def state(self, name):
        v = self._get(name, 0)
        return {0: None, 1: "warning", 2: "drift"}[int(v)]

    def label(self, name):
        return str(self._get(name, "Label!val!0"))

    def assume(self, c):
        if not bool(c):
            raise PathAbort()

    assume_unchecked = assume

    def prove(self, c, label, detail=None):
        ok = bool(c)
        if not ok:
            self.failed.append(label)
        return ok

    def eq(self, a, b):
        return close(a, b)

    def le(self, a, b, tol=1e-9):
        return float(a) <= float(b) + tol

    def approx(self, a, b, tol=1e-9):
        return close(a, b, rel=1e-7, abs_=max(tol, 1e-9))

    def feasible(self, c):
        return bool(c)

    def witness(self, label):
        self.witnesses[label] = self.witnesses.get(label, 0) + 1

    def note(self, s):
        self.notes.append(s)
