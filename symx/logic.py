"""Boolean / numeric helpers that work on proxies and on plain Python values
alike (so the same harness body runs symbolically and in concrete replay)."""
import z3

from .core import Sym, SymBool, SymState, sym_ite, _zbool


def _isb(x):
    return isinstance(x, SymBool)


def _tobool(x):
    if _isb(x):
        return x
    if isinstance(x, Sym):
        return x != 0
    return bool(x)


def lnot(a):
    a = _tobool(a)
    return ~a if _isb(a) else (not a)


def land(*xs):
    acc = []
    for x in xs:
        x = _tobool(x)
        if _isb(x):
            acc.append(x.z)
        elif not x:
            return False
    if not acc:
        return True
    return SymBool(z3.And(*acc)) if len(acc) > 1 else SymBool(acc[0])


def lor(*xs):
    acc = []
    for x in xs:
        x = _tobool(x)
        if _isb(x):
            acc.append(x.z)
        elif x:
            return True
    if not acc:
        return False
    return SymBool(z3.Or(*acc)) if len(acc) > 1 else SymBool(acc[0])


def implies(a, b):
    return lor(lnot(a), b)


def iff(a, b):
    a, b = _tobool(a), _tobool(b)
    if _isb(a) or _isb(b):
        return SymBool(_zbool(a) == _zbool(b))
    return a == b


def b2i(b):
    b = _tobool(b)
    return sym_ite(b, 1, 0) if _isb(b) else int(b)


def ite(c, a, b):
    c = _tobool(c)
    if _isb(c):
        if isinstance(a, (SymBool, bool)) and isinstance(b, (SymBool, bool)):
            return SymBool(z3.If(c.z, _zbool(a), _zbool(b)))
        return sym_ite(c, a, b)
    return a if c else b


def state_is(st, what):
    """st == what, for SymState or concrete None/'warning'/'drift'."""
    if isinstance(st, SymState):
        return st == what
    if st is None or what is None:
        return st is None and what is None
    return isinstance(st, str) and st == what


def count(bools):
    tot = 0
    for b in bools:
        tot = tot + b2i(b)
    return tot


def between(lo, x, hi):
    return land(lo <= x, x <= hi)
