"""Runner: executes the jobs of a check module on a process pool, replays
counterexamples concretely, matches known findings, writes evidence and maps
the verdict to an exit code.

exit 0  every obligation unsat within the stated bounds (known findings printed)
exit 1  a replay-confirmed counterexample not listed in known_findings.json
exit 2  inconclusive / harness error (unknown, budget, unreachable witness,
        non-reproducing model) -- never reported as success or as a violation
"""
from __future__ import annotations

import argparse
import hashlib
import importlib
import inspect
import json
import multiprocessing as mp
import os
import re
import sys
import time
import traceback

VERIF = os.path.dirname(os.path.dirname(os.path.abspath(__file__)))
REPO = os.environ.get("MENELAUS_SRC", "/repo")


class Job:
    def __init__(self, name, fn, cfg=None, expect=(), opts=None, group=None):
        self.name = name  # unique within the check
        self.fn = fn  # "module:function" of the harness body (ctx, **cfg)
        self.cfg = cfg or {}
        self.expect = tuple(expect)  # witnesses that must be reached (vacuity guard)
        self.opts = opts or {}
        self.group = group or name

    def to_json(self):
        return {"name": self.name, "fn": self.fn, "cfg": self.cfg, "opts": self.opts}


def _resolve(fn):
    mod, name = fn.split(":")
    return getattr(importlib.import_module(mod), name)


def _assert_repo():
    import menelaus

    root = os.path.realpath(REPO)
    f = os.path.realpath(menelaus.__file__)
    if not f.startswith(root + os.sep):
        raise RuntimeError(f"menelaus imported from {f}, expected under {root}")


def run_job(job_json):
    """Worker: explore one job symbolically."""
    from . import core

    _assert_repo()
    t0 = time.perf_counter()
    out = {"name": job_json["name"], "violations": [], "inconclusive": [], "error": None}
    covered = _start_line_cover() if os.environ.get("SYMX_COVER") else None
    try:
        body = _resolve(job_json["fn"])
        cfg = job_json["cfg"]
        opts = dict(job_json["opts"])
        validate = opts.pop("validate", 2)
        opts.setdefault("wall_budget_s", float(os.environ.get("SYMX_JOB_BUDGET_S", "900")))
        ex = core.Explorer(**opts)
        samples = []

        def wrapped(ctx):
            body(ctx, **cfg)
            # sample a few completed paths for concrete cross-validation
            if len(samples) < validate and ctx.decisions is not None:
                m = ctx.full_model()
                if m is not None:
                    samples.append(m)

        ex.run(wrapped)
        out["stats"] = ex.stats.to_json()
        out["violations"] = [v.to_json() for v in ex.violations]
        out["inconclusive"] = ex.inconclusive
        # concrete-in-symbolic validation of sampled paths
        agree = disagree = 0
        dis = []
        for m in samples:
            r = replay_model(job_json, m)
            if r["status"] == "ok":
                agree += 1
            elif r["status"] == "failed":
                disagree += 1
                dis.append({"model": m, "failed": r["failed"]})
        out["validated"] = agree
        out["validation_disagreements"] = dis
        out["sample_models"] = samples[:1]
    except BaseException as e:  # noqa: BLE001 - report, never swallow
        out["error"] = "".join(traceback.format_exception(type(e), e, e.__traceback__))[-3000:]
    out["wall_s"] = round(time.perf_counter() - t0, 3)
    if covered is not None:
        out["covered"] = sorted(covered)
    return out


def _start_line_cover():
    """Diagnostic (SYMX_COVER=1): which lines of the library the harnesses execute - used to find code no check reaches"""
    mon = sys.monitoring
    tool = 3
    hit = set()
    try:
        mon.use_tool_id(tool, "symx-cover")
    except ValueError:
        pass

    def on_line(code, line):
        fn = code.co_filename
        if "/menelaus/" in fn:
            hit.add((fn.split("/menelaus/", 1)[1], line))
        return mon.DISABLE

    mon.register_callback(tool, mon.events.LINE, on_line)
    mon.set_events(tool, mon.events.LINE)
    mon.restart_events()
    return hit


def replay_model(job_json, model):
    """Run the harness body on concrete values from ``model`` (no proxies)."""
    from . import core
    from .concrete import ConcreteCtx

    body = _resolve(job_json["fn"])
    ctx = ConcreteCtx(model)
    core.set_cur(ctx)
    status = "ok"
    err = None
    try:
        body(ctx, **job_json["cfg"])
    except core.PathAbort:
        status = "assumption-failed"
    except core.Inconclusive as e:
        status = "inconclusive"
        err = str(e)
    except Exception as e:  # the real code raised where the harness did not expect it
        status = "exception"
        err = f"{type(e).__name__}: {e}"
    finally:
        core.set_cur(None)
    if ctx.failed:
        status = "failed"
    return {"status": status, "failed": ctx.failed, "missing": ctx.missing, "error": err,
            "library_results_replaced_by_model_constants": sorted(set(ctx.stubbed))}


# --------------------------------------------------------------------------
# known findings


def load_known(prop):
    p = os.path.join(VERIF, "known_findings.json")
    if not os.path.exists(p):
        return []
    data = json.load(open(p))
    return [e for e in data.get("findings", []) if e.get("property") == prop and e.get("status") == "known"]


def matches_known(entry, job_json, viol):
    m = entry.get("match", {})
    if "label" in m and not re.search(m["label"], viol["label"]):
        return False
    if "job" in m and not re.search(m["job"], job_json["name"]):
        return False
    for k, v in m.get("cfg", {}).items():
        if job_json["cfg"].get(k) != v:
            return False
    pred = m.get("model_pred")
    if pred:
        from .core import model_float

        env = {re.sub(r"\W", "_", k): model_float(v) for k, v in viol["model"].items()}
        env.update({("cfg_" + k): v for k, v in job_json["cfg"].items()})
        try:
            if not eval(pred, {"__builtins__": {}}, env):  # noqa: S307 - file is committed, never written at run time
                return False
        except Exception:
            return False
    return True


# --------------------------------------------------------------------------
# evidence


def src_hash(obj):
    try:
        src = inspect.getsource(obj)
    except (OSError, TypeError):
        return "unavailable"
    return hashlib.sha256(src.encode()).hexdigest()[:16]


def encoded_functions(mod):
    out = []
    for q in getattr(mod, "ENCODED", []):
        modname, _, attr = q.partition(":")
        obj = importlib.import_module(modname)
        for part in attr.split("."):
            obj = getattr(obj, part)
        out.append({"function": q, "sha256_16": src_hash(obj)})
    return out


def main(argv=None):
    ap = argparse.ArgumentParser()
    ap.add_argument("check")
    ap.add_argument("--tier", default=os.environ.get("VERIF_TIER", "quick"), choices=["quick", "thorough"])
    ap.add_argument("--replay")
    ap.add_argument("--jobs", help="regex: run only matching job names (debugging; evidence not written)")
    ap.add_argument("--procs", type=int, default=int(os.environ.get("VERIF_PROCS", "16")))
    ap.add_argument("--list", action="store_true")
    args = ap.parse_args(argv)

    sys.path.insert(0, VERIF)
    _assert_repo()
    mod = importlib.import_module(f"checks.{args.check}")
    prop = mod.PROPERTY
    seed = int(os.environ.get("VERIF_SEED", "0"))

    if args.replay:
        data = json.load(open(args.replay))
        r = replay_model(data["job"], data["model"])
        print(json.dumps(r, indent=1))
        if r["status"] == "failed" or (r["status"] == "exception" and data["label"].startswith("unexpected-exception")):
            print(f"VIOLATION property={prop} replay={args.replay}")
            return 1
        return 0 if r["status"] == "ok" else 2

    jobs = mod.jobs(args.tier)
    if args.jobs:
        jobs = [j for j in jobs if re.search(args.jobs, j.name)]
    if args.list:
        for j in jobs:
            print(j.name, j.cfg)
        return 0
    import random

    random.Random(seed).shuffle(jobs)
    t0 = time.perf_counter()
    jj = [j.to_json() for j in jobs]
    byname = {j.name: j for j in jobs}
    results = []
    if args.procs > 1 and len(jj) > 1:
        with mp.get_context("fork").Pool(min(args.procs, len(jj)), maxtasksperchild=8) as pool:
            for r in pool.imap_unordered(run_job, jj, chunksize=1):
                results.append(r)
    else:
        results = [run_job(j) for j in jj]

    if os.environ.get("SYMX_COVER"):
        cov = sorted({tuple(c) for r in results for c in r.get("covered", [])})
        with open(os.environ["SYMX_COVER"] + f".{prop}.json", "w") as f:
            json.dump(cov, f)

    from .core import Stats

    total = Stats()
    errors, inconclusive, viols = [], [], []
    validated = 0
    disagreements = []
    per_job = []
    missing_witness = []
    samples = []
    nontrivial = 0
    for r in results:
        j = byname[r["name"]]
        if r["error"]:
            errors.append((r["name"], r["error"]))
            continue
        st = r["stats"]
        s = Stats()
        for k, v in st.items():
            setattr(s, k, v)
        total.merge(s)
        validated += r["validated"]
        for d in r["validation_disagreements"]:
            disagreements.append({"job": r["name"], **d})
        for inc in r["inconclusive"]:
            inconclusive.append((r["name"], inc))
        for w in j.expect:
            if st["witnesses"].get(w, 0) == 0 and not r["violations"]:
                missing_witness.append((r["name"], w))
        if st["proved"] > 0:
            nontrivial += st["paths"]
        for v in r["violations"]:
            viols.append((j.to_json(), v))
        per_job.append({"job": r["name"], "cfg": j.cfg, "paths": st["paths"], "queries": st["queries"],
                        "proved": st["proved"], "solver_s": st["solver_s"], "wall_s": r["wall_s"],
                        "witnesses": st["witnesses"]})
        if r.get("sample_models") and len(samples) < 5:
            samples.append({"job": r["name"], "cfg": j.cfg, "model_of_one_explored_path": r["sample_models"][0]})

    # ---- replay counterexamples
    known = load_known(prop)
    new_viol = []
    known_hits = {}
    nonrepro = []
    rpdir = os.environ.get("VERIF_REPLAY_DIR", os.path.join(VERIF, "replays"))
    os.makedirs(rpdir, exist_ok=True)
    for jjson, v in viols:
        rp = replay_model(jjson, v["model"])
        digest = hashlib.sha256(json.dumps([jjson, v["label"], v["model"]], sort_keys=True, default=str).encode()).hexdigest()[:12]
        path = os.path.join(rpdir, f"{prop}-{digest}.json")
        rec = {"property": prop, "job": jjson, "label": v["label"], "detail": v["detail"],
               "model": v["model"], "decisions": v["decisions"], "replay": rp}
        confirmed = rp["status"] == "failed" or (
            rp["status"] == "exception" and v["label"].startswith("unexpected-exception"))
        if not confirmed:
            nonrepro.append((jjson["name"], v["label"], rp))
            continue
        hit = None
        for e in known:
            if matches_known(e, jjson, v):
                hit = e
                break
        if hit is not None:
            known_hits.setdefault(hit["id"], (hit, jjson["name"], v["label"]))
            continue
        with open(path, "w") as f:
            json.dump(rec, f, indent=1, default=str)
        new_viol.append((path, jjson["name"], v["label"], rp["failed"] or rp["error"]))

    wall = round(time.perf_counter() - t0, 3)
    status = 0
    if new_viol:
        status = 1
    elif errors or inconclusive or missing_witness or nonrepro or total.unknown or disagreements:
        status = 2

    for hid, (e, jn, lab) in sorted(known_hits.items()):
        print(f"KNOWN-FINDING: property={prop} {e['what']} [job={jn} obligation={lab}]")
    for path, jn, lab, failed in new_viol:
        print(f"VIOLATION property={prop} replay={path}")
        print(f"  job={jn} obligation={lab} concrete-replay-failed={failed}")
    for n, e in errors:
        print(f"HARNESS-ERROR job={n}\n{e}")
    for n, inc in inconclusive:
        print(f"INCONCLUSIVE job={n}: {inc}")
    for n, w in missing_witness:
        print(f"VACUITY job={n}: witness '{w}' not reached")
    for dsg in disagreements[:3]:
        print(f"VALIDATION-DISAGREEMENT job={dsg['job']} failed={dsg['failed']} model={json.dumps(dsg['model'], default=str)[:600]}")
    for n, lab, rp in nonrepro:
        print(f"NON-REPRODUCING job={n} obligation={lab}: {rp}")

    if not args.jobs:
        ev = {
            "property_id": prop,
            "tier": args.tier,
            "seed": seed,
            "level": "model_checking",
            "coverage": {
                "states": max(total.paths, 0),
                "transitions": max(total.forks + total.paths, 0),
                "traces_validated_against_impl": validated,
                "samples": samples or [{"note": "no path sampled"}],
                "evaluations": total.paths,
                "distinct_nontrivial": nontrivial,
                "rule": "one evaluation = one feasible symbolic path of a harness body through the real "
                        "menelaus code (distinct decision sequences at SymBool.__bool__ forks); a path is "
                        "non-trivial when it belongs to a job on which at least one obligation was discharged by z3",
                "obligations": total.proved + len(viols),
                "discharged": total.proved,
                "solver_queries": total.queries,
                "solver_unknown": total.unknown,
                "solver_seconds": round(total.solver_s, 2),
                "aborted_infeasible_paths": total.aborted_paths,
                "division_nonzero_assumptions": total.div_assumptions,
                "sqrt_domain_assumptions": total.sqrt_assumptions,
                "witnesses": total.witnesses,
                "bounds": getattr(mod, "BOUNDS", {}).get(args.tier, ""),
                "outside_bounds": getattr(mod, "OUTSIDE", ""),
                "functions_encoded": encoded_functions(mod),
                "jobs": per_job,
                "validation_disagreements": disagreements[:5],
                "known_findings_hit": [h for h in known_hits],
                "trusted_base": getattr(mod, "TRUSTED", []),
                "exhaustive": False,
                "explanation": "bounded symbolic execution of the real code with z3; states = feasible paths, "
                               "transitions = fork decisions + path ends; traces_validated = sampled path models "
                               "re-executed concretely against the real code without proxies with the same verdict",
            },
            "assumptions": getattr(mod, "ASSUMPTIONS", []),
            "wall_s": wall,
            "violations": len(new_viol),
            "verdict": {0: "held", 1: "violation", 2: "inconclusive"}[status],
        }
        evdir = os.environ.get("VERIF_EVIDENCE_DIR", os.path.join(VERIF, "evidence"))
        os.makedirs(evdir, exist_ok=True)
        with open(os.path.join(evdir, f"{prop}.json"), "w") as f:
            json.dump(ev, f, indent=1, default=str)
    if args.jobs or os.environ.get("SYMX_TIMES"):
        for pj in sorted(per_job, key=lambda j: -j["wall_s"])[:6]:
            print(f"  slow: {pj['job']} wall={pj['wall_s']} paths={pj['paths']} solver={pj['solver_s']}")
    print(f"{prop} tier={args.tier} jobs={len(jobs)} paths={total.paths} queries={total.queries} "
          f"proved={total.proved} unknown={total.unknown} validated={validated} "
          f"disagree={len(disagreements)} solver_s={total.solver_s:.1f} wall_s={wall} -> exit {status}")
    return status


if __name__ == "__main__":
    sys.exit(main())
