"""Regenerate /verif/MANIFEST.json from the table below (keeps it schema-valid)."""
import json, os, sys

HERE = os.path.dirname(os.path.dirname(os.path.abspath(__file__)))
BASE_OFF = "cd /repo && /venv/bin/python -m pytest -ra -q -p no:cacheprovider --timeout=900 --continue-on-collection-errors"

LEVEL_TEXT = ("bounded symbolic execution of the real menelaus functions (CPython on z3-backed proxy values); every "
              "obligation is a z3 query over all inputs within the stated bounds: unsat = holds, sat = concrete "
              "counterexample replayed against the real code before it is reported. Not a proof: bounds are stated in the "
              "evidence file.")

CLAIMED = {
    # id: (design_ref, level_note, technique)
    "C01": ("DESIGN.md 7/C01",
            "representation invariants of the scalar detectors (proved inductive); numeric library calls stubbed by contract "
            "as listed in evidence.assumptions; real arithmetic instead of IEEE floats; MD3 via C19",
            "symbolic execution of the real update/reset of 14 detectors with z3: one inductive step from an arbitrary "
            "state (DDM, EDDM, STEPD, PageHinkley; unbounded parameters) and bounded histories with free numeric decisions "
            "(CUSUM, ADWIN, ADWINAccuracy, LFR, kdq-tree x2, HDDDM, CDBD, NNDVI, PCACD)"),
    "C02": ("DESIGN.md 7/C02",
            "library results are deterministic functions of their argument contents shared by detector and twin (seed "
            "schedule); attributes existing only on the drifted detector are compared through later states; exact reals in "
            "the S steps; representation invariants of C01",
            "relational symbolic execution with z3: a drifted detector in an arbitrary state and a newly constructed twin "
            "(plus documented carry-over) take the same symbolic input and their complete attribute dictionaries are proved "
            "equal modulo the epoch offset; bounded histories with a twin started at every drift / injected set_reference"),
    "C03": ("DESIGN.md 7/C03",
            "cut decisions are free booleans in the structural runs (superset of real behaviour), the real _check_epsilon is "
            "tied to the documented formula by a separate lemma with uninterpreted log/sqrt; exact reals; ADWINAccuracy runs "
            "use the real doubles",
            "symbolic execution of the real ADWIN with z3: bounded histories with free cut answers proving mean/variance "
            "identities and the scan protocol against a sizes-only exponential-histogram model; epsilon-cut kernel lemma; "
            "relational ADWINAccuracy == ADWIN on indicators over all outcome sequences"),
    "C04": ("DESIGN.md 7/C04",
            "exact real arithmetic instead of IEEE doubles; CUSUM pre-state satisfies the buffer/list length invariant; "
            "zero deviation inside burn-in assumed away; specification in specs/sequential_tests.py",
            "symbolic execution of the real CUSUM/PageHinkley.update with z3 (nlsat) against reference recurrences: one "
            "inductive step from an arbitrary state (incl. the update after an alarm with re-estimation from the buffered "
            "observations) and short histories from the constructor"),
    "C05": ("DESIGN.md 7/C05",
            "the executable specification (specs/label_detectors.py) takes the running-deviation recurrence from the tree; "
            "B mode uses the real doubles and real scipy; S mode uses exact reals and an uninterpreted monotone Phi",
            "symbolic execution of the real DDM/EDDM/STEPD.update with z3 against an executable specification: all outcome "
            "sequences up to N with universally quantified thresholds and arbitrary integer labels (exact floats per path), "
            "plus one inductive step from an arbitrary state in real arithmetic"),
    "C06": ("DESIGN.md 7/C06",
            "_sim_bounds is an uninterpreted recorded function in the update runs; in the _sim_bounds runs the Bernoulli draws "
            "are arbitrary 0/1 vectors and np.percentile is recorded; Monte-Carlo validity set aside by the property; "
            "parallelize=True not covered",
            "symbolic execution of the real LinearFourRates.update with z3 (all 0/1 label pairs as solver-driven case splits, "
            "symbolic decay factor and bounds) against a functional reference: confusion matrix, rates, conditional statistic "
            "update, test schedule, tracked-only decisions, recs and the exact set of bounds requests (cache); argument "
            "obligations on the real _sim_bounds"),
    "C07": ("DESIGN.md 7/C07",
            "np.histogram on symbolic data is the counting model on equally spaced edges; decision-logic runs use concrete "
            "placeholder batches with per-feature distances / bootstrap epsilon as uninterpreted non-negative functions; JS "
            "distance mathematics trusted (scipy); whole-pipeline symmetry follows by composition, not one query",
            "symbolic execution with z3 of the real HDM code: Hellinger kernel lemma on symbolic histograms (formula, symmetry, "
            "zero for proportional, <= sqrt 2), argument obligations on the recorded np.histogram calls (bins, common range), and "
            "bounded batch histories compared with a functional reference of epsilon / beta / decision / reference bookkeeping"),
    "C08": ("DESIGN.md 7/C08",
            "np.min/ptp/unique().size of the partitioner module replaced by exact non-forking encodings (validated against "
            "numpy each run); scipy.stats.entropy is a recording stub (its own mathematics trusted); cutpoint_proportion_lbound=0",
            "symbolic execution of the real kdq-tree partitioner with z3 on arrays of symbolic points (ties and points on a "
            "midpoint are solver-chosen): every tree shape within the bound is walked and cell membership, counts, split rule, "
            "fill/accumulate/reset semantics, the +0.5 correction lemma and the arguments of the divergence calls are proved"),
    "C09": ("DESIGN.md 7/C09",
            "decision-logic runs stub the partitioner (C08 verifies it) with divergence / critical value as uninterpreted "
            "functions of the rows they are computed from; critical-value runs record random.choice / entropy / quantile; "
            "statistical quality of the bootstrap bound not addressed",
            "symbolic execution of the real kdq-tree detectors with z3: bounded histories compared with the state machine of "
            "the statement (which rows reach build/fill, persistence counted in a row, drifted batch becomes the reference) and "
            "argument obligations on the real _get_critical_kld (draw size and distribution, halves, quantile level 1-alpha)"),
    "C10": ("DESIGN.md 7/C10",
            "np.unique(axis=0) modelled by sort+dedupe (validated against numpy each run); sklearn NearestNeighbors is a stub "
            "(that the adjacency is the kNN relation is trusted, not decided); distance lemma assumes entries>=0, diagonal>=1, "
            "0/1 membership covering all indices; NNDVI runs record permutation / norm.fit / norm.ppf",
            "symbolic execution with z3 of the real NNSpacePartitioner.build on symbolic points (membership over the "
            "de-duplicated union for all size pairs), of compute_nnps_distance on a symbolic matrix (per-point two-variable "
            "lemma + linear composition: symmetric, in [0,1], 0 for equal samples) and of NNDVI.update/_compute_drift_threshold "
            "with argument obligations at the library boundary"),
    "C11": ("DESIGN.md 7/C11",
            "sklearn scaler / PCA / KDE are shape-correct stubs (scaler = fixed invertible affine map distinguishable from the "
            "identity); rows are concrete placeholders, the per-component divergences are symbolic (uninterpreted functions of "
            "their inputs) so the alarm decisions of the real internal Page-Hinkley monitor are solver-quantified",
            "symbolic execution of the real PCACD.update with z3 against a reference model of the statement: window filling, what "
            "reaches scaler / PCA / histogram / KDE (argument obligations incl. per-component bin range), schedule, maximum score, "
            "drift iff the real Page-Hinkley twin alarms, reference replacement after drift, scaling on/off; kernel lemma: "
            "identical samples have intersection score 0"),
    "C12": ("DESIGN.md 7/C12",
            "members modelled as the most general objects with the detector interface (arbitrary states/recommendations after "
            "every call); selectors as tagging functions; real-member runs reuse the kernel stubs of C01/C02",
            "relational symbolic execution of the real ensemble classes with z3: recording stub members / spy elections prove "
            "the update, reset and set_reference fan-out (identity and order of arguments) and the views; real members inside "
            "an ensemble are proved state-equal to independently updated twins"),
    "C14": ("DESIGN.md 7/C14",
            "numpy/pandas coercion of the five container kinds modelled by shape-only fakes (validated on a concrete grid each "
            "run); kernel stubs of C01/C02 in the relational runs; one known finding (DataFrame after arrays) keyed to its own "
            "obligation label; MD3 validation is part of C19",
            "symbolic execution of the real validation code with z3 on containers of symbolic shape / column identity (all call "
            "histories up to the bound against the acceptance rule), plus relational runs: history+malformed+input vs "
            "history+input and container-kind equivalence with complete-state equality"),
    "C15": ("DESIGN.md 7/C15",
            "the symbolic runs execute the real numpy/pandas on object-dtype containers: that object and float64 containers get "
            "a view or a copy from the same operations is compared with the real libraries at the start of every run, and every "
            "sampled path and counterexample is re-executed on float64 containers; numeric kernels are functions of the "
            "contents of their arguments (drivers of C01/C02); multi-block / mixed-dtype frames, MD3 and "
            "FeatureCoverInjector outside the claim",
            "relational (non-interference) symbolic execution with z3: a detector handed caller-owned containers of symbolic "
            "cells (C / Fortran arrays, strided views, DataFrames, lists, Series) whose cells the caller overwrites in place "
            "with fresh symbols after a call, against a twin handed private copies - complete-state equality after every later "
            "call, caller objects proved unmodified after every call; injectors: new object of the same type, input cells "
            "unchanged, no buffer shared with the result, dictionary arguments unchanged"),
    "C16": ("DESIGN.md 7/C16",
            "label re-encodings modelled by opaque equality-only values (uninterpreted sort) vs symbolic integers; kernel stubs "
            "of C01/C02 for the data-drift detectors; MD3 excluded (C19)",
            "relational symbolic execution with z3: two copies of a detector in the same arbitrary state take label pairs of "
            "different encodings with equal agreement (one inductive step, DDM/EDDM/STEPD), LFR 0/1 encodings, ADWINAccuracy "
            "histories, and every detector with an arbitrary object as its unused argument vs None; complete-state equality"),
    "C17": ("DESIGN.md 7/C17",
            "quantile-type library calls are monotone in the level for fixed data; log monotone; random draws are deterministic "
            "functions of their arguments shared by both runs; kdq/NNDVI/HDM runs use concrete placeholder data with symbolic "
            "thresholds; one known finding (PageHinkley with negative running mean) keyed to its own obligation label",
            "relational symbolic execution with z3: two copies of a detector differing only in the threshold take the same "
            "input; one-update lemma (strict alarm implies loose alarm; equal state while the loose one is silent) from an "
            "arbitrary state for the scalar detectors and along bounded histories for ADWIN/LFR/kdq/NNDVI/HDM; ADWIN epsilon-cut "
            "monotonicity in delta as a kernel lemma; warning-threshold half likewise"),
    "C18": ("DESIGN.md 7/C18",
            "np.histogram / np.unique(axis=0) are the counting and sort-dedupe models, the kNN stub is a function of the "
            "de-duplicated union; in the decision-level runs stubbed kernels are functions of the multiset of rows; "
            "detect_batch=1 excluded by the property",
            "relational symbolic execution with z3 over every row permutation (within the bound) of symbolic batches: kdq-tree "
            "leaf counts through the real build/fill, the histograms HDDDM/CDBD hand to their divergence, NNSP union / "
            "membership / distance; plus decision sequences of HDDDM, KdqTreeBatch and NNDVI on permuted vs original batch "
            "sequences"),
    "C19": ("DESIGN.md 7/C19",
            "the k-fold reference summary (sklearn) is replaced by arbitrary symbolic statistics; oracle accuracy arbitrary in "
            "[0,1]; deterministic stub classifier; margin signal arbitrary 0/1 through the public hook",
            "symbolic execution of the real MD3 update/give_oracle_label/set_reference/reset with z3 over all call sequences up "
            "to the bound (operation choice, signals, statistics, sensitivity, required label count symbolic) against the "
            "protocol state machine of the statement, with complete-state equality around refused calls"),
    "C20": ("DESIGN.md 7/C20",
            "random choices are arbitrary values of their documented support (any seed); class labels of the resampling "
            "injectors are concrete (dictionary keys); FeatureCoverInjector not claimed (pandas groupby.sample)",
            "symbolic execution of the real injector classes with z3 on object arrays / DataFrames of symbolic cells: window "
            "bounds and sampler picks are solver-driven case splits, cell identity outside the window, documented effect "
            "inside (swap involutions, shift formula, random-walk increments, sampler population and weight vector)"),
    "C13": ("DESIGN.md 7/C13",
            "members modelled as objects exposing drift_state; parameters on their documented domains; z3 LIA; CPython",
            "symbolic execution of election.py with z3: all vote patterns for n<=5/6 members with unbounded integer "
            "parameters; ConfirmedElection as one inductive step from an arbitrary counter state"),
}

NOT_YET = "check not built yet in this round (planned, see DESIGN.md section 7)"
NA = {}

def main():
    props = [json.loads(l)["id"] for l in open(os.path.join(HERE, "properties.jsonl"))]
    checks = []
    na = []
    for p in props:
        if p in CLAIMED:
            ref, note, tech = CLAIMED[p]
            c = p.lower()
            checks.append({
                "property_id": p,
                "quick_cmd": f"./check {c} --tier quick",
                "thorough_cmd": f"./check {c} --tier thorough",
                "evidence_file": f"evidence/{p}.json",
                "replay_cmd_template": f"./check {c} --replay {{path}}",
                "engine": "symx",
                "level_claimed": {"category": "model_checking", "text": LEVEL_TEXT, "design_ref": ref},
                "level_note": note,
                "technique": tech,
            })
        else:
            na.append({"property_id": p, "reason": NA.get(p, NOT_YET)})
    man = {
        "version": 1,
        "setup_cmd": "./setup.sh",
        "hooks": {
            "guard": "MENELAUS_VERIF",
            "enable": "no source hooks: all instrumentation is module-global rebinding done by the harness at run time "
                      "(./check exports MENELAUS_VERIF=1 for uniformity; menelaus never reads it)",
            "baseline_off_cmd": BASE_OFF,
            "source_commits": [],
            "add_only": True,
        },
        "engines": [{
            "name": "symx", "path": "symx/", "serves_properties": sorted(CLAIMED),
            "kind_free_text": "proxy-based symbolic execution of the real menelaus bytecode with z3 (path-wise, stateless "
                              "DFS re-execution; concrete replay of every counterexample)"}],
        "checks": checks,
        "not_applicable": na,
        "notes": "exit 0 held / 1 replay-confirmed VIOLATION / 2 inconclusive-or-harness-error (never on the unchanged tree). "
                 "Known findings: known_findings.json.",
    }
    json.dump(man, open(os.path.join(HERE, "MANIFEST.json"), "w"), indent=1)
    try:
        import jsonschema
        jsonschema.validate(man, json.load(open("/root/.vp/MANIFEST.schema.json")))
        print("MANIFEST valid;", len(checks), "claimed,", len(na), "not claimed")
    except ImportError:
        print("written (jsonschema not available for validation)")

main()
