#!/bin/sh
# tools/seedrun.sh <id> <check> [tier]  -- run a check against a seeded patch (scratch copy), log to /tmp/seedlog_<id>_<check>.txt
ID=$1; CHECK=$2; TIER=${3:-quick}
/verif/tools/mut.sh $CHECK $TIER /tmp/seed_$ID/patch.diff "" > /tmp/seedlog_${ID}_${CHECK}.txt 2>&1
echo "== seed $ID vs $CHECK ($TIER): $(grep -c '^VIOLATION' /tmp/seedlog_${ID}_${CHECK}.txt) violation lines; $(tail -1 /tmp/seedlog_${ID}_${CHECK}.txt)"
