#!/bin/sh
# tools/seedrun.sh <id|dirname> <check> [tier]  -- run a check against a seeded patch (scratch copy)
# <id> like c04 -> /tmp/seed_c04 ; a name containing '_' (seed2_c04) -> /tmp/<name>
A=$1; CHECK=$2; TIER=${3:-quick}
case "$A" in *_*) D=/tmp/$A;; *) D=/tmp/seed_$A;; esac
LOG=/tmp/seedlog_$(basename $D)_${CHECK}.txt
/verif/tools/mut.sh $CHECK $TIER $D/patch.diff "" > $LOG 2>&1
echo "== $(basename $D) vs $CHECK ($TIER): $(grep -c '^VIOLATION' $LOG) violation lines; $(tail -1 $LOG)"
