"""Print a python file with line numbers, without docstrings/blank lines (reading aid)."""
import ast, sys
for fn in sys.argv[1:]:
    src = open(fn).read()
    tree = ast.parse(src)
    skip = set()
    for node in ast.walk(tree):
        if isinstance(node, (ast.FunctionDef, ast.ClassDef, ast.Module, ast.AsyncFunctionDef)):
            b = node.body
            if b and isinstance(b[0], ast.Expr) and isinstance(getattr(b[0], 'value', None), ast.Constant) and isinstance(b[0].value.value, str):
                for l in range(b[0].lineno, b[0].end_lineno + 1):
                    skip.add(l)
    print('#####', fn)
    for i, line in enumerate(src.splitlines(), 1):
        if i in skip or not line.strip():
            continue
        print(f'{i:4d} {line}')
