#!/bin/sh
# tools/confirm_seed.sh <id|dirname>: confirm a seeded change in its scratch worktree:
# demo fails with the change, passes without, and the existing suite passes with the change.
A=$1
case "$A" in *_*) WT=/tmp/$A; ID=${A#*_};; *) WT=/tmp/seed_$A; ID=$A;; esac
TAG=$(basename $WT)
cd $WT || exit 9
git diff -- menelaus > /tmp/confirm_$TAG.diff
cmp -s /tmp/confirm_$TAG.diff patch.diff || echo "NOTE: patch.diff differs from working-tree diff"
PYTHONPATH=$WT /venv/bin/python demo_$ID.py > /tmp/confirm_${TAG}_with.txt 2>&1; W=$?
git apply -R patch.diff || exit 8
PYTHONPATH=$WT /venv/bin/python demo_$ID.py > /tmp/confirm_${TAG}_without.txt 2>&1; WO=$?
git apply patch.diff || exit 7
T=$(PYTHONPATH=$WT /venv/bin/python -m pytest -q -p no:cacheprovider --timeout=900 tests/menelaus 2>&1 | tail -1)
echo "$TAG: demo_with_change_exit=$W demo_without_exit=$WO suite='$T'"
