"""tools/mutate.py -- mutation sweep (development aid, not part of any verdict).

Generates first-order mutants of the library (comparison boundaries, +/-,
and/or, dropped `not`, integer constants +1, deleted `self.x = ...` statements)
on lines the harnesses execute (SYMX_COVER output), runs the quick check(s)
responsible for the file against a scratch copy with the mutant applied, and
records which mutants survive.  Survivors are triaged by hand: equivalent
mutants are expected; the rest point at obligations or job grids to extend.

usage: tools/mutate.py <cover-prefix> <out.jsonl> [--files regex] [--workers 3] [--procs 5] [--limit N]
"""
import argparse
import ast
import glob
import json
import os
import random
import re
import shutil
import subprocess
import sys
import tempfile
from concurrent.futures import ThreadPoolExecutor

REPO = "/repo"
PRIMARY = {
    "change_detection/adwin.py": ["c03"], "change_detection/cusum.py": ["c04"], "change_detection/page_hinkley.py": ["c04"],
    "concept_drift/ddm.py": ["c05"], "concept_drift/eddm.py": ["c05"], "concept_drift/stepd.py": ["c05"],
    "concept_drift/adwin_accuracy.py": ["c03"], "concept_drift/lfr.py": ["c06"], "concept_drift/md3.py": ["c19"],
    "data_drift/histogram_density_method.py": ["c07"], "data_drift/hdddm.py": ["c07"], "data_drift/cdbd.py": ["c07"],
    "data_drift/kdq_tree.py": ["c09"], "partitioners/KDQTreePartitioner.py": ["c08"],
    "partitioners/NNSpacePartitioner.py": ["c10"], "data_drift/nndvi.py": ["c10"], "data_drift/pca_cd.py": ["c11"],
    "ensemble/ensemble.py": ["c12"], "ensemble/election.py": ["c13"], "detector.py": ["c14"],
    "injection/injector.py": ["c20"], "injection/feature_manipulation.py": ["c20"], "injection/label_manipulation.py": ["c20"],
    "injection/noise.py": ["c20"],
}
SECONDARY = {
    "change_detection/adwin.py": ["c01"], "change_detection/cusum.py": ["c01", "c02"], "change_detection/page_hinkley.py": ["c01", "c17"],
    "concept_drift/ddm.py": ["c01", "c16"], "concept_drift/eddm.py": ["c01", "c16"], "concept_drift/stepd.py": ["c01", "c16"],
    "concept_drift/lfr.py": ["c01", "c16"], "concept_drift/md3.py": ["c01"],
    "data_drift/histogram_density_method.py": ["c01", "c02", "c18"], "data_drift/kdq_tree.py": ["c01", "c02", "c18"],
    "partitioners/KDQTreePartitioner.py": ["c18"], "partitioners/NNSpacePartitioner.py": ["c18"], "data_drift/nndvi.py": ["c01", "c02"],
    "data_drift/pca_cd.py": ["c01", "c02"], "ensemble/ensemble.py": [], "detector.py": ["c01"],
}


def sites(src, covered_lines):
    tree = ast.parse(src)
    lines = src.split("\n")
    out = []

    def seg(node):
        return (node.lineno, node.col_offset, node.end_lineno, node.end_col_offset)

    def text(node):
        l0, c0, l1, c1 = seg(node)
        if l0 != l1:
            return None
        return lines[l0 - 1][c0:c1]

    docstrings = set()
    for n in ast.walk(tree):
        if isinstance(n, (ast.FunctionDef, ast.ClassDef, ast.Module)) and n.body and isinstance(n.body[0], ast.Expr) \
                and isinstance(getattr(n.body[0], "value", None), ast.Constant) and isinstance(n.body[0].value.value, str):
            docstrings.add(id(n.body[0].value))
    in_raise = set()  # error messages and default parameter values are not mutated
    for n in ast.walk(tree):
        if isinstance(n, ast.Raise):
            for k in ast.walk(n):
                in_raise.add(id(k))
        if isinstance(n, ast.arguments):
            for dflt in list(n.defaults) + [k for k in n.kw_defaults if k is not None]:
                for k in ast.walk(dflt):
                    in_raise.add(id(k))
    for n in ast.walk(tree):
        if id(n) in in_raise or not hasattr(n, "lineno") or n.lineno not in covered_lines:
            continue
        if isinstance(n, ast.Compare) and len(n.ops) == 1:
            op = n.ops[0]
            left_end = (n.left.end_lineno, n.left.end_col_offset)
            right_start = (n.comparators[0].lineno, n.comparators[0].col_offset)
            if left_end[0] != right_start[0]:
                continue
            mid = lines[left_end[0] - 1][left_end[1]:right_start[1]]
            swaps = {ast.Lt: ("<", "<="), ast.LtE: ("<=", "<"), ast.Gt: (">", ">="), ast.GtE: (">=", ">"),
                     ast.Eq: ("==", "!="), ast.NotEq: ("!=", "==")}
            if type(op) in swaps:
                a, b = swaps[type(op)]
                if mid.count(a) == 1 or mid.strip() == a:
                    new = mid.replace(a, b, 1)
                    out.append((left_end[0], left_end[1], right_start[1], new, f"cmp {a}->{b}"))
        elif isinstance(n, ast.BinOp) and isinstance(n.op, (ast.Add, ast.Sub)):
            if any(isinstance(k, (ast.JoinedStr,)) or (isinstance(k, ast.Constant) and isinstance(k.value, str))
                   for k in (n.left, n.right)):
                continue
            le = (n.left.end_lineno, n.left.end_col_offset)
            rs = (n.right.lineno, n.right.col_offset)
            if le[0] != rs[0]:
                continue
            mid = lines[le[0] - 1][le[1]:rs[1]]
            a, b = ("+", "-") if isinstance(n.op, ast.Add) else ("-", "+")
            if mid.count(a) == 1:
                out.append((le[0], le[1], rs[1], mid.replace(a, b, 1), f"arith {a}->{b}"))
        elif isinstance(n, ast.BoolOp) and len(n.values) == 2:
            le = (n.values[0].end_lineno, n.values[0].end_col_offset)
            rs = (n.values[1].lineno, n.values[1].col_offset)
            if le[0] != rs[0]:
                continue
            mid = lines[le[0] - 1][le[1]:rs[1]]
            a, b = (" and ", " or ") if isinstance(n.op, ast.And) else (" or ", " and ")
            if mid.count(a.strip()) == 1:
                out.append((le[0], le[1], rs[1], mid.replace(a.strip(), b.strip(), 1), f"bool {a.strip()}->{b.strip()}"))
        elif isinstance(n, ast.UnaryOp) and isinstance(n.op, ast.Not):
            t = text(n)
            inner = text(n.operand)
            if t and inner:
                out.append((n.lineno, n.col_offset, n.end_col_offset, f"({inner})", "drop not"))
        elif isinstance(n, ast.Constant) and isinstance(n.value, int) and not isinstance(n.value, bool) \
                and 0 <= n.value <= 3 and id(n) not in docstrings:
            t = text(n)
            if t == str(n.value):
                out.append((n.lineno, n.col_offset, n.end_col_offset, str(n.value + 1), f"const {n.value}->{n.value + 1}"))
        elif isinstance(n, ast.Assign) and len(n.targets) == 1 and isinstance(n.targets[0], ast.Attribute) \
                and isinstance(n.targets[0].value, ast.Name) and n.targets[0].value.id == "self" and n.lineno == n.end_lineno:
            out.append((n.lineno, n.col_offset, n.end_col_offset, "pass", f"delete {text(n.targets[0])} = ..."))
    return out


def main():
    ap = argparse.ArgumentParser()
    ap.add_argument("cover")
    ap.add_argument("out")
    ap.add_argument("--files", default=".")
    ap.add_argument("--workers", type=int, default=3)
    ap.add_argument("--procs", type=int, default=5)
    ap.add_argument("--limit", type=int, default=0, help="max mutants per file (random sample, fixed seed)")
    ap.add_argument("--secondary", action="store_true", help="also run the secondary checks on survivors of the primary one")
    args = ap.parse_args()
    hit = set()
    for f in glob.glob(args.cover + ".*.json"):
        hit |= {tuple(x) for x in json.load(open(f))}
    done = set()
    if os.path.exists(args.out):
        for line in open(args.out):
            r = json.loads(line)
            done.add((r["file"], r["line"], r["col"], r["desc"]))
    todo = []
    for rel in PRIMARY:
        if not re.search(args.files, rel):
            continue
        src = open(f"{REPO}/menelaus/{rel}").read()
        cov = {ln for (f, ln) in hit if f == rel}
        ss = sites(src, cov)
        random.Random(1).shuffle(ss)
        if args.limit:
            ss = ss[: args.limit]
        for s in ss:
            if (rel, s[0], s[1], s[4]) not in done:
                todo.append((rel, s))
    print(f"{len(todo)} mutants to run", flush=True)

    def worker(items, wid):
        d = tempfile.mkdtemp(prefix=f"mutsweep{wid}.", dir="/tmp")
        subprocess.run(["rsync", "-a", "--exclude", ".git", "--exclude", "htmlcov", "--exclude", "docs", REPO + "/", d + "/"], check=True)
        try:
            for rel, (ln, c0, c1, new, desc) in items:
                path = f"{d}/menelaus/{rel}"
                orig = open(f"{REPO}/menelaus/{rel}").read()
                lines = orig.split("\n")
                old_line = lines[ln - 1]
                lines[ln - 1] = old_line[:c0] + new + old_line[c1:]
                mutated = "\n".join(lines)
                try:
                    compile(mutated, path, "exec")
                except SyntaxError:
                    continue
                open(path, "w").write(mutated)
                res = {}
                checks = list(PRIMARY[rel])
                survived = True
                for ck in checks + (SECONDARY.get(rel, []) if args.secondary else []):
                    if not survived:
                        break
                    env = dict(os.environ, MENELAUS_SRC=d, VERIF_EVIDENCE_DIR=f"{d}/_ev", VERIF_REPLAY_DIR=f"{d}/_rp",
                               SYMX_JOB_BUDGET_S="300")
                    try:
                        p = subprocess.run(["/verif/check", ck, "--tier", "quick", "--procs", str(args.procs)], env=env,
                                           capture_output=True, text=True, timeout=1500)
                        rc = p.returncode
                        tail = [x for x in p.stdout.split("\n") if "obligation=" in x or "INCONCL" in x or "HARNESS" in x][:2]
                    except subprocess.TimeoutExpired:
                        rc, tail = 99, ["timeout"]
                    res[ck] = {"exit": rc, "why": [t.strip()[:200] for t in tail]}
                    if rc == 1:
                        survived = False
                open(path, "w").write(orig)
                shutil.rmtree(f"{d}/_rp", ignore_errors=True)
                rec = {"file": rel, "line": ln, "col": c0, "desc": desc, "old": old_line.strip(), "new": lines[ln - 1].strip(),
                       "results": res, "killed": not survived}
                with open(args.out, "a") as f:
                    f.write(json.dumps(rec) + "\n")
                print(("KILLED  " if not survived else "SURVIVED"), rel, ln, desc, {k: v["exit"] for k, v in res.items()}, flush=True)
        finally:
            shutil.rmtree(d, ignore_errors=True)

    chunks = [todo[i:: args.workers] for i in range(args.workers)]
    with ThreadPoolExecutor(args.workers) as ex:
        list(ex.map(lambda a: worker(*a), [(c, i) for i, c in enumerate(chunks)]))


if __name__ == "__main__":
    main()
