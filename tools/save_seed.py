"""tools/save_seed.py <id-lower> <suffix> <json-meta>  -- copy a confirmed seeded change into /verif/seeded/"""
import json, os, shutil, sys
sid, suffix, meta = sys.argv[1], sys.argv[2], json.loads(sys.argv[3])
tag = f"seed_{sid}"
if "_" in sid:  # e.g. seed2_c04
    tag, sid = sid, sid.split("_", 1)[1]
wt = f"/tmp/{tag}"
dst = f"/verif/seeded/{sid.upper()}-{suffix}"
os.makedirs(dst, exist_ok=True)
shutil.copy(f"{wt}/patch.diff", f"{dst}/patch.diff")
shutil.copy(f"{wt}/demo_{sid}.py", f"{dst}/demo_{sid}.py")
meta.setdefault("property", sid.upper())
meta["confirmed"] = {
    "how": "tools/confirm_seed.sh in a scratch worktree of /repo (outside /repo and /verif): demo exits 1 with the change, 0 without; "
           "existing suite passes with the change",
    "demo_with_change": open(f"/tmp/confirm_{tag}_with.txt").read()[-600:],
    "demo_without_change": open(f"/tmp/confirm_{tag}_without.txt").read()[-300:],
}
json.dump(meta, open(f"{dst}/meta.json", "w"), indent=1)
print("saved", dst)
