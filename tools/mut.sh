#!/bin/sh
# tools/mut.sh <check> <tier> <sed-expr> <file-relative-to-repo>   -- mutation self-test on a scratch copy
# e.g. tools/mut.sh c13 quick 's/num_drift > simple/num_drift >= simple/' menelaus/ensemble/election.py
set -e
CHECK=$1; TIER=$2; EXPR=$3; FILE=$4
D=$(mktemp -d /tmp/mut.XXXXXX)
trap 'rm -rf "$D"' EXIT
rsync -a --exclude .git --exclude htmlcov --exclude docs /repo/ "$D/"
if [ -f "$EXPR" ]; then (cd "$D" && patch -p1 -s < "$EXPR"); else sed -i "$EXPR" "$D/$FILE"; fi
if [ -n "$FILE" ] && cmp -s "/repo/$FILE" "$D/$FILE"; then echo "MUTATION DID NOT APPLY"; exit 3; fi
set +e
MENELAUS_SRC="$D" VERIF_EVIDENCE_DIR="$D/_ev" VERIF_REPLAY_DIR="$D/_rp" /verif/check "$CHECK" --tier "$TIER" 2>&1 | grep -E 'VIOLATION|KNOWN|INCONCL|HARNESS|VACUITY|NON-REPRO|exit|obligation=' | head -80
