"""tools/uncovered.py <prefix>  -- diagnostic: library lines no harness executes.

Run the checks with SYMX_COVER=<prefix> first (each writes <prefix>.<ID>.json);
this lists, per library file, the executable lines none of them reached.
Not part of any verdict: it only points at code the job grids do not reach.
"""
import glob
import json
import os
import sys

SRC = os.environ.get("MENELAUS_SRC", "/repo") + "/menelaus/"
prefix = sys.argv[1]
hit = set()
for f in glob.glob(prefix + ".*.json"):
    hit |= {tuple(x) for x in json.load(open(f))}


for root, _, files in sorted(os.walk(SRC)):
    for fn in sorted(files):
        if not fn.endswith(".py"):
            continue
        path = os.path.join(root, fn)
        rel = path[len(SRC):]
        if rel.startswith("datasets") or rel.startswith("plot"):
            continue
        src = open(path).read()
        code = compile(src, path, "exec")
        body = set()

        def walk(cc, in_func):
            for k in cc.co_consts:
                if hasattr(k, "co_lines"):
                    walk(k, True)  # methods of a class body, nested functions, comprehensions
            if in_func:
                for _, _, ln in cc.co_lines():
                    if ln is not None and ln != cc.co_firstlineno:
                        body.add(ln)

        for c in code.co_consts:
            if hasattr(c, "co_lines"):
                walk(c, not c.co_name[:1].isupper())  # a class body runs at import time; its methods do not
        lines = src.split("\n")
        miss = sorted(ln for ln in body if (rel, ln) not in hit)
        got = len(body) - len(miss)
        print(f"== {rel}: {got}/{len(body)} function-body lines reached")
        for ln in miss:
            print(f"   {ln:4d}: {lines[ln - 1].strip()[:110]}")
