"""tools/killmatrix.py [--only regex] [--workers N] [--procs P]

Regression of the kill matrix: every seeded change under /verif/seeded/<ID>/ is
applied to a scratch copy of /repo (never to /repo itself) and the quick tier
of each check named in its meta.json "caught_by" is run against it; the check
must exit 1 with a replay-confirmed VIOLATION line.  Writes
/verif/seeded/KILLMATRIX.json.  A development aid: not registered in MANIFEST.
"""
import argparse
import glob
import json
import os
import re
import shutil
import subprocess
import tempfile
import time
from concurrent.futures import ThreadPoolExecutor

ap = argparse.ArgumentParser()
ap.add_argument("--only", default=".")
ap.add_argument("--workers", type=int, default=3)
ap.add_argument("--procs", type=int, default=5)
args = ap.parse_args()

seeds = sorted(d for d in glob.glob("/verif/seeded/C*-*") if re.search(args.only, os.path.basename(d)))
work = []
for d in seeds:
    meta = json.load(open(d + "/meta.json"))
    for ck in meta.get("caught_by", {}):
        work.append((os.path.basename(d), d, ck.lower()))
print(f"{len(work)} (seed, check) pairs", flush=True)
results = {}


def run(chunk):
    for name, d, ck in chunk:
        s = tempfile.mkdtemp(prefix="km.", dir="/tmp")
        try:
            subprocess.run(["rsync", "-a", "--exclude", ".git", "--exclude", "htmlcov", "--exclude", "docs", "/repo/", s + "/"], check=True)
            subprocess.run(["patch", "-p1", "-s", "-i", d + "/patch.diff"], cwd=s, check=True)
            env = dict(os.environ, MENELAUS_SRC=s, VERIF_EVIDENCE_DIR=s + "/_ev", VERIF_REPLAY_DIR=s + "/_rp", SYMX_JOB_BUDGET_S="300")
            t = time.time()
            p = subprocess.run(["/verif/check", ck, "--tier", "quick", "--procs", str(args.procs)], env=env, capture_output=True, text=True)
            nv = sum(1 for line in p.stdout.split("\n") if line.startswith("VIOLATION"))
            obl = sorted({m.group(1) for m in re.finditer(r"obligation=(\S+)", p.stdout)})[:4]
            results[f"{name}:{ck.upper()}"] = {"exit": p.returncode, "violation_lines": nv, "obligations": obl, "wall_s": round(time.time() - t, 1)}
            print(("ok  " if p.returncode == 1 and nv else "MISS"), name, ck, p.returncode, nv, obl[:2], flush=True)
        finally:
            shutil.rmtree(s, ignore_errors=True)


chunks = [work[i:: args.workers] for i in range(args.workers)]
with ThreadPoolExecutor(args.workers) as ex:
    list(ex.map(run, chunks))
if args.only == ".":
    json.dump({"generated_by": "tools/killmatrix.py", "pairs": dict(sorted(results.items()))}, open("/verif/seeded/KILLMATRIX.json", "w"), indent=1)
miss = [k for k, v in results.items() if not (v["exit"] == 1 and v["violation_lines"])]
print("MISSES:", miss)
