#!/bin/sh
# Build the overlay venv used by every check: /verif/.venv on top of /venv (the
# repository's own interpreter and its numpy/scipy/sklearn/pandas), plus
# z3-solver, cvc5 and crosshair-tool from the offline wheelhouse.
# Idempotent; offline (PIP_NO_INDEX=1).
set -e
HERE="$(cd "$(dirname "$0")" && pwd)"
VENV="$HERE/.venv"
STAMP="$VENV/.ok"
if [ -f "$STAMP" ] && "$VENV/bin/python" -c "import z3, numpy, pandas, sklearn" >/dev/null 2>&1; then
    exit 0
fi
LOCK="$HERE/.venv.lock"
# serialise concurrent creators (checks may be launched in parallel)
exec 9>"$LOCK"
flock 9
if [ -f "$STAMP" ] && "$VENV/bin/python" -c "import z3, numpy, pandas, sklearn" >/dev/null 2>&1; then
    exit 0
fi
rm -rf "$VENV"
/venv/bin/python -m venv "$VENV"
SP="$("$VENV/bin/python" -c 'import sysconfig; print(sysconfig.get_paths()["purelib"])')"
printf "import site; site.addsitedir('/venv/lib/python3.12/site-packages')\n" > "$SP/_menelaus_overlay.pth"
PIP_NO_INDEX=1 "$VENV/bin/pip" install -q --no-index --find-links /opt/veriftools/wheels \
    z3-solver cvc5 crosshair-tool >/dev/null 2>&1 || \
PIP_NO_INDEX=1 "$VENV/bin/pip" install -q --no-index --find-links /opt/veriftools/wheels z3-solver
"$VENV/bin/python" -c "import z3, numpy, pandas, sklearn; print('overlay ok: z3', z3.get_version_string(), 'numpy', numpy.__version__)"
touch "$STAMP"
